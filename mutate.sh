#!/bin/sh
# usage: mutate.sh <name> <file relative to repo> <python-regex-old> <new> -- <check args>
# Makes a scratch copy of /repo under /tmp, applies one textual edit, runs ./check with VERIF_REPO
# pointing at it, removes the copy.  Developer tool for sensitivity experiments (not a MANIFEST command).
set -e
name=$1; file=$2; old=$3; new=$4; shift 5
d=/tmp/qv-mut-$name-$$
rm -rf "$d"; mkdir -p "$d"; cp -r /repo/src "$d/src"
python3 - "$d/$file" "$old" "$new" <<'PY'
import re,sys
p,old,new=sys.argv[1:4]
s=open(p).read()
n=len(re.findall(old,s))
if n!=1: sys.exit("pattern matches %d times"%n)
open(p,'w').write(re.sub(old,lambda m:new,s))
PY
VERIF_REPO=$d /verif/check "$@" 2>&1 | grep -E "VIOLATION|KNOWN|MACHINERY|violations=" | head -8
rm -rf "$d"
