------------------------------ MODULE Catalogue ------------------------------
(***************************************************************************)
(* The predefined catalogue (C20): every predefined unit with its quantity *)
(* type and its scale DIRECTLY to the reference unit, written from the SI  *)
(* brochure, the 1959 international yard and pound agreement (1 yd =       *)
(* 0.9144 m, 1 lb = 0.45359237 kg), IEC 80000-13 (binary prefixes) - not   *)
(* from the library.  Separately each unit carries the definitional chain  *)
(* the module documentation shows (parent unit x factor) or its compound   *)
(* definition (product of component units), so that TLC checks the table's *)
(* own coherence: chain products equal the direct scales, compound units   *)
(* equal the product of their components, dimensions compose.              *)
(*                                                                         *)
(* Symbols are ASCII aliases (um = micro-metre, m2, m3, m/s2, degC ...);   *)
(* the harness maps them to the library's symbols.  Scales are sequences   *)
(* of small rational factors, multiplied as prime-exponent vectors         *)
(* (Scale.tla).                                                            *)
(***************************************************************************)
EXTENDS Scale, FiniteSets

BaseT == <<"Mass", "Length", "Duration", "DataVolume", "Temperature">>
Dim(m, l, t, d, k) == <<m, l, t, d, k>>
TypeDims == [
  Mass |-> Dim(1, 0, 0, 0, 0), Length |-> Dim(0, 1, 0, 0, 0), Duration |-> Dim(0, 0, 1, 0, 0),
  DataVolume |-> Dim(0, 0, 0, 1, 0), Temperature |-> Dim(0, 0, 0, 0, 1),
  Area |-> Dim(0, 2, 0, 0, 0), Volume |-> Dim(0, 3, 0, 0, 0), Velocity |-> Dim(0, 1, -1, 0, 0),
  Acceleration |-> Dim(0, 1, -2, 0, 0), Force |-> Dim(1, 1, -2, 0, 0), Energy |-> Dim(1, 2, -2, 0, 0),
  Power |-> Dim(1, 2, -3, 0, 0), Frequency |-> Dim(0, 0, -1, 0, 0), DataThroughput |-> Dim(0, 0, -1, 1, 0)]
TypeNames == DOMAIN TypeDims
RefSym == [Mass |-> "kg", Length |-> "m", Duration |-> "s", DataVolume |-> "B", Temperature |-> "NONE",
           Area |-> "m2", Volume |-> "m3", Velocity |-> "m/s", Acceleration |-> "m/s2", Force |-> "N",
           Energy |-> "J", Power |-> "W", Frequency |-> "Hz", DataThroughput |-> "B/s"]
Quantum == [t \in TypeNames |-> IF t = "DataVolume" THEN <<1, 8>> ELSE <<0, 0>>]

U(s, t, f, of, cf, comp) == [s |-> s, t |-> t, f |-> f, of |-> of, cf |-> cf, comp |-> comp]
Ref(s, t)            == U(s, t, <<>>, "NONE", <<>>, <<>>)
Sc(s, t, f, of, cf)  == U(s, t, f, of, cf, <<>>)
Cp(s, t, f, comp)    == U(s, t, f, "NONE", <<>>, comp)
E3 == <<1000, 1>>   E6 == <<1000000, 1>>   E9 == <<1000000000, 1>>
M3 == <<1, 1000>>   M6 == <<1, 1000000>>   M9 == <<1, 1000000000>>
K2 == <<1024, 1>>   \* 2^10
InF == <<254, 10000>>  FtF == <<3048, 10000>>  YdF == <<9144, 10000>>  MiF == <<1609344, 1000>>
LbF == <<45359237, 100000000>>

UnitTable == <<
  \* Mass
  Ref("kg", "Mass"),
  Sc("g", "Mass", <<M3>>, "kg", <<M3>>),
  Sc("mg", "Mass", <<M6>>, "g", <<M3>>),
  Sc("t", "Mass", <<E3>>, "kg", <<E3>>),
  Sc("lb", "Mass", <<LbF>>, "kg", <<LbF>>),
  Sc("st", "Mass", <<LbF, <<14, 1>>>>, "lb", << <<14, 1>> >>),
  Sc("oz", "Mass", <<LbF, <<1, 16>>>>, "lb", << <<625, 10000>> >>),
  Sc("ct", "Mass", << <<2, 10000>> >>, "g", << <<2, 10>> >>),
  \* Length
  Ref("m", "Length"),
  Sc("nm", "Length", <<M9>>, "m", <<M9>>),
  Sc("um", "Length", <<M6>>, "m", <<M6>>),
  Sc("mm", "Length", <<M3>>, "m", <<M3>>),
  Sc("cm", "Length", << <<1, 100>> >>, "m", << <<1, 100>> >>),
  Sc("dm", "Length", << <<1, 10>> >>, "m", << <<1, 10>> >>),
  Sc("km", "Length", <<E3>>, "m", <<E3>>),
  Sc("in", "Length", <<InF>>, "cm", << <<254, 100>> >>),
  Sc("ft", "Length", <<FtF>>, "in", << <<12, 1>> >>),
  Sc("yd", "Length", <<YdF>>, "ft", << <<3, 1>> >>),
  Sc("ch", "Length", << <<201168, 10000>> >>, "yd", << <<22, 1>> >>),
  Sc("fur", "Length", << <<201168, 1000>> >>, "ch", << <<10, 1>> >>),
  Sc("mi", "Length", <<MiF>>, "fur", << <<8, 1>> >>),
  \* Duration
  Ref("s", "Duration"),
  Sc("ns", "Duration", <<M9>>, "s", <<M9>>),
  Sc("us", "Duration", <<M6>>, "s", <<M6>>),
  Sc("ms", "Duration", <<M3>>, "s", <<M3>>),
  Sc("min", "Duration", << <<60, 1>> >>, "s", << <<60, 1>> >>),
  Sc("h", "Duration", << <<3600, 1>> >>, "min", << <<60, 1>> >>),
  Sc("d", "Duration", << <<86400, 1>> >>, "h", << <<24, 1>> >>),
  \* Area
  Ref("m2", "Area"),
  Cp("mm2", "Area", <<M6>>, << <<"mm", 2>> >>),
  Cp("cm2", "Area", << <<1, 10000>> >>, << <<"cm", 2>> >>),
  Cp("dm2", "Area", << <<1, 100>> >>, << <<"dm", 2>> >>),
  Cp("km2", "Area", <<E6>>, << <<"km", 2>> >>),
  Sc("a", "Area", << <<100, 1>> >>, "m2", << <<100, 1>> >>),
  Sc("ha", "Area", << <<10000, 1>> >>, "a", << <<100, 1>> >>),
  Cp("in2", "Area", <<InF, InF>>, << <<"in", 2>> >>),
  Cp("ft2", "Area", <<FtF, FtF>>, << <<"ft", 2>> >>),
  Cp("yd2", "Area", <<YdF, YdF>>, << <<"yd", 2>> >>),
  Cp("mi2", "Area", <<MiF, MiF>>, << <<"mi", 2>> >>),
  Sc("ac", "Area", << <<4840, 1>>, YdF, YdF>>, "yd2", << <<4840, 1>> >>),
  \* Volume
  Ref("m3", "Volume"),
  Cp("mm3", "Volume", <<M9>>, << <<"mm", 3>> >>),
  Cp("cm3", "Volume", <<M6>>, << <<"cm", 3>> >>),
  Cp("dm3", "Volume", <<M3>>, << <<"dm", 3>> >>),
  Cp("km3", "Volume", <<E9>>, << <<"km", 3>> >>),
  Sc("l", "Volume", <<M3>>, "m3", <<M3>>),
  Sc("ml", "Volume", <<M6>>, "l", <<M3>>),
  Sc("cl", "Volume", << <<1, 100000>> >>, "l", << <<1, 100>> >>),
  Sc("dl", "Volume", << <<1, 10000>> >>, "l", << <<1, 10>> >>),
  Cp("in3", "Volume", <<InF, InF, InF>>, << <<"in", 3>> >>),
  Cp("ft3", "Volume", <<FtF, FtF, FtF>>, << <<"ft", 3>> >>),
  Cp("yd3", "Volume", <<YdF, YdF, YdF>>, << <<"yd", 3>> >>),
  \* Velocity
  Ref("m/s", "Velocity"),
  Cp("km/h", "Velocity", << <<1000, 3600>> >>, << <<"km", 1>>, <<"h", -1>> >>),
  Cp("ft/s", "Velocity", <<FtF>>, << <<"ft", 1>>, <<"s", -1>> >>),
  Cp("mph", "Velocity", << <<44704, 100000>> >>, << <<"mi", 1>>, <<"h", -1>> >>),
  \* Acceleration
  Ref("m/s2", "Acceleration"),
  Cp("mps2", "Acceleration", <<MiF>>, << <<"mi", 1>>, <<"s", -2>> >>),
  \* Force
  Ref("N", "Force"),
  Cp("J/m", "Force", <<>>, << <<"J", 1>>, <<"m", -1>> >>),
  \* Energy
  Ref("J", "Energy"),
  Cp("Nm", "Energy", <<>>, << <<"N", 1>>, <<"m", 1>> >>),
  Cp("Ws", "Energy", <<>>, << <<"W", 1>>, <<"s", 1>> >>),
  Cp("kWh", "Energy", << <<3600000, 1>> >>, << <<"kW", 1>>, <<"h", 1>> >>),
  \* Power
  Ref("W", "Power"),
  Sc("mW", "Power", <<M3>>, "W", <<M3>>),
  Sc("kW", "Power", <<E3>>, "W", <<E3>>),
  Sc("MW", "Power", <<E6>>, "W", <<E6>>),
  Sc("GW", "Power", <<E9>>, "W", <<E9>>),
  Sc("TW", "Power", <<E6, E6>>, "W", <<E6, E6>>),
  \* Frequency
  Ref("Hz", "Frequency"),
  Sc("kHz", "Frequency", <<E3>>, "Hz", <<E3>>),
  Sc("MHz", "Frequency", <<E6>>, "Hz", <<E6>>),
  Sc("GHz", "Frequency", <<E9>>, "Hz", <<E9>>),
  \* DataVolume
  Ref("B", "DataVolume"),
  Sc("kB", "DataVolume", <<E3>>, "B", <<E3>>),
  Sc("MB", "DataVolume", <<E6>>, "B", <<E6>>),
  Sc("GB", "DataVolume", <<E9>>, "B", <<E9>>),
  Sc("TB", "DataVolume", <<E6, E6>>, "B", <<E6, E6>>),
  Sc("KiB", "DataVolume", <<K2>>, "B", <<K2>>),
  Sc("MiB", "DataVolume", <<K2, K2>>, "B", <<K2, K2>>),
  Sc("GiB", "DataVolume", <<K2, K2, K2>>, "B", <<K2, K2, K2>>),
  Sc("TiB", "DataVolume", <<K2, K2, K2, K2>>, "B", <<K2, K2, K2, K2>>),
  Sc("b", "DataVolume", << <<1, 8>> >>, "B", << <<1, 8>> >>),
  Sc("kb", "DataVolume", << <<125, 1>> >>, "b", <<E3>>),
  Sc("Mb", "DataVolume", << <<125000, 1>> >>, "b", <<E6>>),
  Sc("Gb", "DataVolume", << <<125000000, 1>> >>, "b", <<E9>>),
  Sc("Tb", "DataVolume", << <<125000, 1>>, E6>>, "b", <<E6, E6>>),
  Sc("Kib", "DataVolume", << <<128, 1>> >>, "b", <<K2>>),
  Sc("Mib", "DataVolume", << <<131072, 1>> >>, "b", <<K2, K2>>),
  Sc("Gib", "DataVolume", << <<134217728, 1>> >>, "b", <<K2, K2, K2>>),
  Sc("Tib", "DataVolume", << <<134217728, 1>>, K2>>, "b", <<K2, K2, K2, K2>>),
  \* DataThroughput
  Ref("B/s", "DataThroughput"),
  Sc("kB/s", "DataThroughput", <<E3>>, "B/s", <<E3>>),
  Sc("MB/s", "DataThroughput", <<E6>>, "B/s", <<E6>>),
  Sc("GB/s", "DataThroughput", <<E9>>, "B/s", <<E9>>),
  Sc("TB/s", "DataThroughput", <<E6, E6>>, "B/s", <<E6, E6>>),
  Sc("KiB/s", "DataThroughput", <<K2>>, "B/s", <<K2>>),
  Sc("MiB/s", "DataThroughput", <<K2, K2>>, "B/s", <<K2, K2>>),
  Sc("GiB/s", "DataThroughput", <<K2, K2, K2>>, "B/s", <<K2, K2, K2>>),
  Sc("TiB/s", "DataThroughput", <<K2, K2, K2, K2>>, "B/s", <<K2, K2, K2, K2>>),
  Cp("b/s", "DataThroughput", << <<1, 8>> >>, << <<"b", 1>>, <<"s", -1>> >>),
  Sc("kb/s", "DataThroughput", << <<125, 1>> >>, "b/s", <<E3>>),
  Sc("Mb/s", "DataThroughput", << <<125000, 1>> >>, "b/s", <<E6>>),
  Sc("Gb/s", "DataThroughput", << <<125000000, 1>> >>, "b/s", <<E9>>),
  Sc("Tb/s", "DataThroughput", << <<125000, 1>>, E6>>, "b/s", <<E6, E6>>),
  Sc("Kib/s", "DataThroughput", << <<128, 1>> >>, "b/s", <<K2>>),
  Sc("Mib/s", "DataThroughput", << <<131072, 1>> >>, "b/s", <<K2, K2>>),
  Sc("Gib/s", "DataThroughput", << <<134217728, 1>> >>, "b/s", <<K2, K2, K2>>),
  Sc("Tib/s", "DataThroughput", << <<134217728, 1>>, K2>>, "b/s", <<K2, K2, K2, K2>>),
  \* Temperature (no scales: table-converted, see Affine.tla)
  Ref("degC", "Temperature"), Ref("degF", "Temperature"), Ref("K", "Temperature")
>>
NUnits == Len(UnitTable)
Syms == {UnitTable[i].s : i \in 1..NUnits}
URec(s) == UnitTable[CHOOSE i \in 1..NUnits : UnitTable[i].s = s]
Known(s) == s \in Syms
TypeOfU(s) == URec(s).t
Linear(t) == t # "Temperature"
VecOf(s) == FactSeq(URec(s).f, 1)

SIPrefixes == [yocto |-> -24, zepto |-> -21, atto |-> -18, femto |-> -15, pico |-> -12, nano |-> -9,
               micro |-> -6, milli |-> -3, centi |-> -2, deci |-> -1, deca |-> 1, hecto |-> 2, kilo |-> 3,
               mega |-> 6, giga |-> 9, tera |-> 12, peta |-> 15, exa |-> 18, zetta |-> 21, yotta |-> 24]

(* dimension arithmetic and result types *)
DAddT(a, b, k) == [i \in 1..5 |-> a[i] + k * b[i]]
ZeroD == <<0, 0, 0, 0, 0>>
TypeWithDim(d) == IF \E t \in TypeNames : TypeDims[t] = d THEN CHOOSE t \in TypeNames : TypeDims[t] = d
                  ELSE "NONE"

(* ---- coherence of the table itself (checked by TLC) -------------------- *)
RECURSIVE CompVec(_, _)
CompVec(comp, k) == IF k > Len(comp) THEN SOne
                    ELSE SMulV(SPowV(VecOf(comp[k][1]), comp[k][2]), CompVec(comp, k + 1))
RECURSIVE CompDim(_, _)
CompDim(comp, k) == IF k > Len(comp) THEN ZeroD
                    ELSE DAddT(CompDim(comp, k + 1), TypeDims[TypeOfU(comp[k][1])], comp[k][2])
AllFactorsInModel ==
    \A i \in 1..NUnits : \A k \in DOMAIN UnitTable[i].f :
        InModel(UnitTable[i].f[k][1]) /\ InModel(UnitTable[i].f[k][2])
SymsUnique == Cardinality(Syms) = NUnits
RefsAreOne == \A t \in TypeNames : RefSym[t] # "NONE" => (Known(RefSym[t]) /\ VecOf(RefSym[t]) = SOne
                                                            /\ TypeOfU(RefSym[t]) = t)
ChainsAgree ==
    \A i \in 1..NUnits : LET u == UnitTable[i] IN
        u.of # "NONE" => /\ TypeOfU(u.of) = u.t
                         /\ VecOf(u.s) = SMulV(VecOf(u.of), FactSeq(u.cf, 1))
CompoundsAgree ==
    \A i \in 1..NUnits : LET u == UnitTable[i] IN
        u.comp # <<>> => /\ VecOf(u.s) = CompVec(u.comp, 1)
                         /\ TypeDims[u.t] = CompDim(u.comp, 1)
Coherent == AllFactorsInModel /\ SymsUnique /\ RefsAreOne /\ ChainsAgree /\ CompoundsAgree
=============================================================================
