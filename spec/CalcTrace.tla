----------------------------- MODULE CalcTrace -----------------------------
(***************************************************************************)
(* Trace validation of recorded executions of the real library against     *)
(* Calc.  The trace file (IOEnv.TRACE_FILE) is a JSON array of events; a   *)
(* "Reset" event starts a new program in a pristine register file.  Every   *)
(* other event is one public call of the library with its operands given   *)
(* as register indices and its observed outcome; the specification         *)
(* recomputes the outcome from ITS OWN registers and compares.  A          *)
(* deviation is printed (one line per event, with the expected value) and  *)
(* ends the judgement of that program; a value outside the 15-bit model    *)
(* range ends it as "skipped".  Acceptance = every event consumed.         *)
(***************************************************************************)
EXTENDS Calc, Json, IOUtils, TLC, TLCExt, SequencesExt
Tr == JsonDeserialize(IOEnv.TRACE_FILE)
K  == 6
VARIABLES i, regs, mode, live, mc      \* mc: a money converter (rates MRates) is registered
tvars == <<i, regs, mode, live, mc>>


SeqRange(s) == {s[j] : j \in DOMAIN s}
ObsVal(o) == Val(o.k, o.t, o.u, <<o.a[1], o.a[2]>>, o.x)

Match(exp, obs) ==
    CASE exp.k = "oor" -> "oor"
      [] exp.k = "e"   -> IF obs.k = "e" /\ (exp.x \in SeqRange(obs.mro)
                                              \/ (exp.x = "ZeroDivisionError|UndefinedResultError"
                                                  /\ ("ZeroDivisionError" \in SeqRange(obs.mro) \/ "UndefinedResultError" \in SeqRange(obs.mro))))
                          THEN "ok" ELSE "bad"
      [] exp.k = "q"   -> IF obs.k = "q" /\ obs.t = exp.t /\ obs.u = exp.u
                             /\ <<obs.a[1], obs.a[2]>> = exp.a THEN "ok" ELSE "bad"
      [] exp.k = "qv"  -> IF obs.k = "q" /\ obs.t = exp.t /\ obs.u \in UnitsOf(exp.t)
                          THEN (IF IsOOR(SDiv(exp.a, ScaleOf(obs.u))) THEN "oor"
                                ELSE IF SDiv(exp.a, ScaleOf(obs.u)) = <<obs.a[1], obs.a[2]>>
                                THEN "ok" ELSE "bad")
                          ELSE "bad"
      [] exp.k = "tv"  -> IF obs.k = "t" /\ obs.t = exp.t /\ obs.u \in UnitsOf(exp.t)
                          THEN (IF IsOOR(SDiv(exp.a, ScaleOf(obs.u))) THEN "oor"
                                ELSE IF SDiv(exp.a, ScaleOf(obs.u)) = <<obs.a[1], obs.a[2]>>
                                THEN "ok" ELSE "bad")
                          ELSE "bad"
      [] exp.k = "n"   -> IF obs.k = "n" /\ <<obs.a[1], obs.a[2]>> = exp.a THEN "ok" ELSE "bad"
      [] exp.k = "b"   -> IF obs.k = "b" /\ obs.x = exp.x THEN "ok" ELSE "bad"
      [] OTHER         -> "bad"

\* two plain numbers: ordinary exact arithmetic (no library call involved)
NumBin(op, x, y) ==
    CASE op = "Add" -> Guard(SAdd(x.a, y.a), NumV(SAdd(x.a, y.a)))
      [] op = "Sub" -> Guard(SSub(x.a, y.a), NumV(SSub(x.a, y.a)))
      [] op = "Mul" -> Guard(SMul(x.a, y.a), NumV(SMul(x.a, y.a)))
      [] op = "Div" -> IF y.a = RZero THEN ErrV("ZeroDivisionError")
                       ELSE Guard(SDiv(x.a, y.a), NumV(SDiv(x.a, y.a)))
Bin(op, x, y) ==
    IF IsN(x) /\ IsN(y) THEN NumBin(op, x, y) ELSE
    CASE op = "Add" -> IF mc THEN AddSubMC(1, x, y, mode) ELSE Add(x, y, mode)
      [] op = "Sub" -> IF mc THEN AddSubMC(-1, x, y, mode) ELSE Sub(x, y, mode)
      [] op = "Mul" -> IF IsQ(x) /\ IsN(y) THEN MulNum(x, y, mode)
                       ELSE IF IsN(x) /\ IsQ(y) THEN MulNum(y, x, mode)
                       ELSE IF IsU(x) /\ IsN(y) THEN Construct(x.u, y.a, mode)
                       ELSE IF IsN(x) /\ IsU(y) THEN Construct(y.u, x.a, mode)
                       ELSE Mul(x, y, mode)
      [] op = "Div" -> IF IsQ(x) /\ IsN(y) THEN DivNum(x, y, mode)
                       ELSE IF IsU(x) /\ IsN(y)
                            THEN (IF y.a = RZero THEN ErrV("ZeroDivisionError")
                                  ELSE Construct(x.u, SDiv(ROne, y.a), mode))
                       ELSE IF IsN(x) THEN RDivNum(x, y, mode)
                       ELSE Div(x, y, mode)

Expected(ev) ==
    CASE ev.op = "Make"     -> Make(ev.cls, <<ev.a[1], ev.a[2]>>, ev.u, mode)
      [] ev.op = "Lit"      -> IF ev.k = "n" THEN NumV(<<ev.a[1], ev.a[2]>>) ELSE UnitV(ev.u)
      [] ev.op = "Convert"  -> IF mc /\ regs[ev.x].t = "Money" THEN ConvertMC(regs[ev.x], ev.u, mode)
                               ELSE Convert(regs[ev.x], ev.u, mode)
      [] ev.op \in {"Add", "Sub", "Mul", "Div"} -> Bin(ev.op, regs[ev.x], regs[ev.y])
      [] ev.op = "Neg"      -> Neg(regs[ev.x], mode)
      [] ev.op = "Clone"    -> regs[ev.x]            \* copy / deepcopy: the same quantity (same unit object)
      [] ev.op = "Abs"      -> AbsQ(regs[ev.x], mode)
      [] ev.op = "Cmp"      -> IF mc THEN CmpMC(ev.c, regs[ev.x], regs[ev.y]) ELSE Cmp(ev.c, regs[ev.x], regs[ev.y])
      [] ev.op = "Pow"      -> IF IsN(regs[ev.x])
                               THEN (IF ev.n < 0 /\ regs[ev.x].a = RZero THEN ErrV("ZeroDivisionError")
                                     ELSE Guard(SPowI(regs[ev.x].a, ev.n), NumV(SPowI(regs[ev.x].a, ev.n))))
                               ELSE Pow(regs[ev.x], ev.n, mode)
      [] ev.op = "Quantize" -> Quantize(regs[ev.x], regs[ev.y], ev.rm, mode)
      [] ev.op = "Sum"      -> SumQ([j \in DOMAIN ev.rs |-> regs[ev.rs[j]]], mode)

\* registers an event reads
Reads(ev) == (IF ev.op \in {"Convert", "Add", "Sub", "Mul", "Div", "Neg", "Abs", "Clone", "Cmp", "Pow", "Quantize",
                            "Round", "Alloc", "HashEq"} THEN {ev.x} ELSE {})
             \cup (IF ev.op \in {"Add", "Sub", "Mul", "Div", "Cmp", "Quantize", "HashEq"} THEN {ev.y} ELSE {})
             \cup (IF ev.op \in {"Sum", "Sort", "Alloc"} THEN {ev.rs[j] : j \in DOMAIN ev.rs} ELSE {})
\* judgement of one event: "ok" | "bad" | "oor"
Judge(ev) ==
    IF \E r \in Reads(ev) : regs[r].k = "oor" THEN "oor" ELSE      \* an operand left the model range earlier
    CASE ev.op = "Lit"   -> "ok"
      [] ev.op = "Snap" ->
            \* quantities are immutable: whatever was called since, every register still holds the value the
            \* specification stored in it (a result aliasing or mutating an operand shows here)
            IF \A r \in 1..K : regs[r].k # "q"
                                \/ (ev.snap[r].k = regs[r].k /\ ev.snap[r].t = regs[r].t /\ ev.snap[r].u = regs[r].u
                                    /\ <<ev.snap[r].a[1], ev.snap[r].a[2]>> = regs[r].a)
            THEN "ok" ELSE "bad"
      [] ev.op = "Round" -> RoundJudge(regs[ev.x], ev.n, ObsVal(ev.res), mode)
      [] ev.op = "Alloc" ->
            LET q  == regs[ev.x]
                rs == [j \in DOMAIN ev.rs |-> regs[ev.rs[j]]]
                ps == [j \in DOMAIN ev.ps |-> <<ev.ps[j][1], ev.ps[j][2]>>]
                rm == <<ev.rem[1], ev.rem[2]>>
            IN  IF ~ev.shape THEN "bad"
                ELSE IF ~AllocInRange(q, rs, ps, rm) THEN "oor"
                ELSE IF AllocOK(q, rs, ev.disp, mode, ps, rm) THEN "ok" ELSE "bad"
      [] ev.op = "Sort" ->
            IF ev.exc # "" THEN "bad"
            ELSE SortJudge([j \in DOMAIN ev.rs |-> regs[ev.rs[j]]], ev.perm)
      [] ev.op = "HashEq" ->
            \* equality must agree with the abstract key, and equal => same hash
            LET x == regs[ev.x]  y == regs[ev.y]
                c == Cmp("eq", x, y)
            IN  IF c.k = "oor" THEN "oor"
                ELSE IF (c.x = "TRUE") # ev.eq THEN "bad:eq"
                ELSE IF ev.eq /\ ~ev.heq THEN "bad:hash" ELSE "ok"
      [] OTHER -> Match(Expected(ev), ev.res)

NewReg(ev) ==
    CASE ev.op = "Lit" -> Expected(ev)
      [] ev.op \in {"Cmp", "Alloc", "HashEq", "Sort", "Snap"} -> EmptyV
      [] OTHER -> IF ev.res.k \in {"q", "n"} THEN ObsVal(ev.res) ELSE EmptyV

HasDest(ev) == ev.op \notin {"Cmp", "Alloc", "HashEq", "Sort", "Reset", "SetMode", "SetConv", "Snap"}

Init == i = 1 /\ regs = [r \in 1..K |-> EmptyV] /\ mode = "ROUND_HALF_EVEN" /\ live = TRUE /\ mc = FALSE

Step ==
    /\ i <= Len(Tr)
    /\ i' = i + 1
    /\ LET ev == Tr[i] IN
       IF ev.op = "Reset"
       THEN regs' = [r \in 1..K |-> EmptyV] /\ mode' = "ROUND_HALF_EVEN" /\ live' = TRUE /\ mc' = FALSE
       ELSE IF ~live THEN UNCHANGED <<regs, mode, live, mc>>
       ELSE IF ev.op = "SetMode" THEN mode' = ev.m /\ UNCHANGED <<regs, live, mc>>
       ELSE IF ev.op = "SetConv" THEN mc' = ev.on /\ UNCHANGED <<regs, live, mode>>
       ELSE LET j == Judge(ev) IN
            /\ IF j = "ok" THEN TRUE
               ELSE PrintT(<<"QV", j, ev.id, IF ev.op \in {"Round", "Alloc", "HashEq", "Lit", "Sort", "Snap"}
                                             THEN EmptyV ELSE Expected(ev)>>)
            \* neither a deviation nor a value outside the model range ends the judgement of the program: either only
            \* poisons the register the result was stored in (events reading it are skipped), so that one deviation -
            \* a recorded finding, say - does not hide whatever the rest of the program would show
            /\ live' = TRUE
            /\ mode' = mode /\ mc' = mc
            /\ regs' = IF j = "ok" /\ ev.op = "Alloc"
                       \* the first Len(zs) portions (judged by AllocOK) are stored for later operations
                       THEN [r \in 1..K |-> IF \E k \in DOMAIN ev.zs : ev.zs[k] = r
                                             THEN Qty(regs[ev.x].u, <<ev.ps[CHOOSE k \in DOMAIN ev.zs : ev.zs[k] = r][1],
                                                                      ev.ps[CHOOSE k \in DOMAIN ev.zs : ev.zs[k] = r][2]>>)
                                             ELSE regs[r]]
                       ELSE IF ev.op = "Alloc"
                       THEN [r \in 1..K |-> IF \E k \in DOMAIN ev.zs : ev.zs[k] = r THEN OORV ELSE regs[r]]
                       ELSE IF j = "ok" /\ HasDest(ev) /\ (ev.op = "Lit" \/ ev.res.k # "e")
                       THEN [regs EXCEPT ![ev.z] = NewReg(ev)]
                       ELSE IF j # "ok" /\ HasDest(ev) /\ ev.op # "Lit" /\ ev.res.k # "e"
                       THEN [regs EXCEPT ![ev.z] = IF ev.res.k = "t" THEN EmptyV ELSE OORV]
                       ELSE regs
TraceSpec == Init /\ [][Step]_tvars
Consumed == TLCGet("stats").diameter = Len(Tr) + 1
Post == PrintT(<<"QVDONE", TLCGet("stats").diameter - 1, Len(Tr)>>) /\ Consumed
=============================================================================
