-------------------------------- MODULE Scale --------------------------------
(***************************************************************************)
(* The multiplicative group of non-zero rationals as sign + exponent       *)
(* vectors over a finite prime set.  This is how scales and amounts of any *)
(* magnitude (10^+-24, 2^40, 0.45359237 = 7*11*97*6073/10^8) are handled   *)
(* exactly inside 32-bit TLC: products, quotients and powers become small  *)
(* integer vector additions.  Supports * / ^ = only (no + and no <).       *)
(***************************************************************************)
EXTENDS Integers, Sequences

Primes == <<2, 3, 5, 7, 11, 97, 127, 6073>>
NP == Len(Primes)
SOne == [sg |-> 1, ex |-> [i \in 1..NP |-> 0]]
SMulV(a, b) == [sg |-> a.sg * b.sg, ex |-> [i \in 1..NP |-> a.ex[i] + b.ex[i]]]
SDivV(a, b) == [sg |-> a.sg * b.sg, ex |-> [i \in 1..NP |-> a.ex[i] - b.ex[i]]]
SPowV(a, n) == [sg |-> IF n % 2 = 0 THEN 1 ELSE a.sg, ex |-> [i \in 1..NP |-> n * a.ex[i]]]

(* factorisation of a positive integer by trial division over Primes;       *)
(* the cofactor left over must be 1 for the number to be in the model.       *)
RECURSIVE Mult(_, _)
Mult(n, p) == IF n % p = 0 THEN 1 + Mult(n \div p, p) ELSE 0
RECURSIVE StripP(_, _)
StripP(n, p) == IF n % p = 0 THEN StripP(n \div p, p) ELSE n
RECURSIVE Cofactor(_, _)
Cofactor(n, i) == IF i > NP THEN n ELSE Cofactor(StripP(n, Primes[i]), i + 1)
InModel(n) == n > 0 /\ Cofactor(n, 1) = 1
FactInt(n) == [sg |-> 1, ex |-> [i \in 1..NP |-> Mult(n, Primes[i])]]
(* a rational <<n, d>> with n # 0, d > 0 *)
FactRat(r) == LET a == IF r[1] < 0 THEN -r[1] ELSE r[1]
                  v == SDivV(FactInt(a), FactInt(r[2]))
              IN  [sg |-> IF r[1] < 0 THEN -1 ELSE 1, ex |-> v.ex]
(* product of a sequence of rational factors *)
RECURSIVE FactSeq(_, _)
FactSeq(fs, k) == IF k > Len(fs) THEN SOne ELSE SMulV(FactRat(fs[k]), FactSeq(fs, k + 1))
Pow10V(n) == SPowV(FactInt(10), n)
(* value as sent by the harness: [sg, ex] with ex a sequence of NP integers *)
FromJson(j) == [sg |-> j.sg, ex |-> [i \in 1..NP |-> j.ex[i]]]
=============================================================================
