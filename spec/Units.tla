-------------------------------- MODULE Units --------------------------------
(***************************************************************************)
(* Declarations, directories, unit algebra and its memo (C15, C16, C17 and *)
(* the "which results exist" half of C02).                                  *)
(*                                                                         *)
(* State: the declared quantity types and units in declaration order and   *)
(* the memo of unit*unit / unit/unit results.  Every step picks ANY item   *)
(* of a menu of candidate declarations and operations, valid or not, any   *)
(* number of times; a rejected step changes nothing but `out`.  Normalised  *)
(* definitions are denotations [num, vec]: the exact rational factor and   *)
(* the exponent of every base unit, computed from the meaning of the       *)
(* definition - not by the library's term sorting/merging.                 *)
(*                                                                         *)
(* The resolution of a denotation to a declared unit has the two stages of *)
(* the implementation (exact definition first, then the definition without *)
(* its numeric factor; the first unit registered under a definition wins)  *)
(* because the memo stores its outcome; the property-level result of an    *)
(* operation (Fresh) is history-free: type and exact value in base units.  *)
(***************************************************************************)
EXTENDS Rat, Sequences, FiniteSets, TLC

CONSTANTS Menu,        \* set of item ids this configuration may use
          MaxSteps     \* bound on the length of a history

NoRat  == <<0, 0>>
NoName == "NONE"
BaseTypes == {"A", "B", "M", "D", "Bd2"}
BaseUnits == {"a", "b", "p", "q", "d", "mpx", "bdref"}
ZeroVec == [u \in BaseUnits |-> 0]
ZeroDim == [t \in BaseTypes |-> 0]
UnitVec(s) == [u \in BaseUnits |-> IF u = s THEN 1 ELSE 0]
VAdd(v, w, k) == [u \in BaseUnits |-> v[u] + k * w[u]]
VMul(v, k) == [u \in BaseUnits |-> k * v[u]]
DAdd(v, w, k) == [t \in BaseTypes |-> v[t] + k * w[t]]

(***************************************************************************)
(* The menu.  act: "base" | "derived" | "scaled" | "plain" | "term" |       *)
(* "derive" | "mul" | "div" | "pow".  Fields not used by an act hold typed  *)
(* dummies.  sym = "" stands for an empty symbol, sym = "#5" for a          *)
(* non-string symbol, ref = "GEN" for "let the library generate the        *)
(* reference symbol".                                                       *)
(***************************************************************************)
\* (for a base type the field f holds its quantum, NoRat = none)
It(id, act, name, def, ref, typ, sym, f, of, items, n) ==
    [id |-> id, act |-> act, name |-> name, def |-> def, ref |-> ref, typ |-> typ,
     sym |-> sym, f |-> f, of |-> of, items |-> items, n |-> n]
TBase(id, name, ref)          == It(id, "base", name, <<>>, ref, NoName, NoName, NoRat, NoName, <<>>, 0)
TBaseQ(id, name, ref, q)      == It(id, "base", name, <<>>, ref, NoName, NoName, q, NoName, <<>>, 0)
TDer(id, name, def, ref)      == It(id, "derived", name, def, ref, NoName, NoName, NoRat, NoName, <<>>, 0)
\* a type whose definition is a term of UNITS (of = a unit symbol) instead of a term of types: never a valid definition
TBadDef(id, name, ref, of)    == It(id, "baddef", name, <<>>, ref, NoName, NoName, NoRat, of, <<>>, 0)
UScaled(id, typ, sym, f, of)  == It(id, "scaled", NoName, <<>>, NoName, typ, sym, f, of, <<>>, 0)
UPlain(id, typ, sym)          == It(id, "plain", NoName, <<>>, NoName, typ, sym, NoRat, NoName, <<>>, 0)
UTerm(id, typ, sym, items)    == It(id, "term", NoName, <<>>, NoName, typ, sym, NoRat, NoName, items, 0)
\* a term with a plain integer factor f raised to the power n in front: f^n * items
UTermN(id, typ, sym, f, n, items) == It(id, "term", NoName, <<>>, NoName, typ, sym, f, NoName, items, n)
UDerive(id, typ, sym, args)   == It(id, "derive", NoName, <<>>, NoName, typ, sym, NoRat, NoName, args, 0)
OMul(id, u1, u2)              == It(id, "mul", NoName, <<>>, NoName, NoName, u1, NoRat, u2, <<>>, 0)
ODiv(id, u1, u2)              == It(id, "div", NoName, <<>>, NoName, NoName, u1, NoRat, u2, <<>>, 0)
OPow(id, u1, n)               == It(id, "pow", NoName, <<>>, NoName, NoName, u1, NoRat, NoName, <<>>, n)

AllItems == {
  TBase("tA", "A", "a"),
  TBase("tB", "B", "b"),
  TBase("tM", "M", NoName),                                 \* no reference unit
  TBase("tA_dupsym", "A9", "a"),                            \* reference symbol already taken
  TBaseQ("tD", "D", "d", <<3, 4>>),                         \* quantized type: amounts are multiples of 3/4 d
  UScaled("kd", "D", "kd", <<10, 1>>, "d"),                 \* 10 d is not on the grid: the defining quantity is 9.75 d
  UScaled("td", "D", "td", <<3, 1>>, "d"),                  \* on the grid
  UScaled("hd", "D", "hd", <<1, 2>>, "kd"),                 \* 1/2 kd -> 6/13 kd = 4.5 d
  TDer("tAB", "AB", << <<"A", 1>>, <<"B", 1>> >>, "GEN"),
  TDer("tA2", "A2", << <<"A", 2>> >>, "a2"),
  TDer("tA2_dup", "A2x", << <<"A", 2>> >>, "sqa"),          \* dimension taken, fresh symbol
  TDer("tA2_dup2", "A2y", << <<"A", 1>>, <<"A", 1>> >>, "GEN"),  \* same dimension spelt A*A
  TDer("tApB", "ApB", << <<"A", 1>>, <<"B", -1>> >>, "apb"),
  TDer("tBi", "Bi", << <<"B", -1>> >>, "bi"),
  TDer("tMpA", "MpA", << <<"M", 1>>, <<"A", -1>> >>, NoName),   \* no reference unit possible
  TDer("tA1", "A1", << <<"A", 1>> >>, "a1"),                \* same dimension as base type A
  TDer("tMpA_dup", "MpA2", << <<"M", 1>>, <<"A", -1>> >>, "mpx"),  \* dimension of MpA again, explicit symbol, no ref unit derivable
  TDer("tApB2", "ApB2", << <<"A", 1>>, <<"B", -2>> >>, "apb2"),
  TBadDef("tBadDef", "Bd", "bdref", "ka"),                          \* rejected: leaves neither a type nor the symbol bdref
  TBase("tBd_later", "Bd2", "bdref"),                               \* ... which therefore stays free for this one
  TDer("tA3", "A3", << <<"A", 3>> >>, "a3"),                        \* a cube type - with or without the square type
  TDer("tABpM", "ABpM", << <<"A", 1>>, <<"B", 1>>, <<"M", -1>> >>, "GEN"),  \* a component without reference unit comes last
  TDer("tA2_symdup", "A2s", << <<"A", 2>> >>, "a"),                 \* free dimension, reference symbol already taken
  TDer("tAB_symdup", "ABs", << <<"A", 1>>, <<"B", 1>> >>, "b"),
  UScaled("ka", "A", "ka", <<10, 1>>, "a"),
  UScaled("a_one", "A", "a1x", <<1, 1>>, "a"),              \* exactly one reference unit under another symbol
  UScaled("a2x", "A2", "a2x", <<1, 100>>, "ka2"),            \* 1/100 ka2 = 1 a2: an alias of the reference unit declared late
  UScaled("xa5", "A", "xa5", <<5, 1>>, "a"),                 \* same scale as ha (= 1/2 ka): equal, yet another unit
  UScaled("ppa1", "MpA", "ppa1", <<1, 1>>, "ppa"),           \* exactly one ppa, under another symbol
  UScaled("ppa10", "MpA", "ppa10", <<10, 1>>, "ppka"),       \* 10 p/ka = 1 p/a: worth what ppa is worth, in a type without reference unit
  UScaled("ha", "A", "ha", <<1, 2>>, "ka"),
  UScaled("ta", "A", "ta", <<1, 3>>, "a"),
  UScaled("cb", "B", "cb", <<1, 100>>, "b"),
  UScaled("xb_wrongtype", "A", "xb", <<2, 1>>, "b"),        \* B quantity as equivalent of an A unit
  UScaled("a_dup", "A", "a", <<3, 1>>, "a"),                \* duplicate symbol
  UScaled("ka_dupB", "B", "ka", <<7, 1>>, "b"),             \* symbol of another type's unit
  UScaled("empty", "A", "", <<3, 1>>, "a"),                 \* empty symbol
  UScaled("nonstr", "A", "#5", <<3, 1>>, "a"),              \* symbol that is not a string
  UScaled("aa", "A2", "aa", <<100, 1>>, "a2"),
  UPlain("p", "M", "p"),
  UPlain("q", "M", "q"),
  UPlain("p_dup", "M", "p"),
  UTerm("kab", "AB", "kab", << <<"ka", 1>>, <<"b", 1>> >>),
  UTerm("bad_dim", "AB", "bad", << <<"ka", 1>>, <<"ka", 1>> >>),      \* denotes A^2, not A*B
  UTerm("bad_cancel", "A", "bc", << <<"ka", 1>>, <<"a", -1>> >>),     \* the units cancel: a number, not an A unit
  UTermN("are", "A2", "are", <<100, 1>>, 1, << <<"a", 2>> >>),         \* 100 * a^2: a unit of A2 ...
  UTermN("bad_are", "A", "bare", <<100, 1>>, 1, << <<"a", 2>> >>),     \* ... and not a unit of A
  UTermN("milli_a", "A", "mla", <<1000, 1>>, -1, << <<"a", 1>> >>),    \* 1000^-1 a with the PYTHON INT 1000: 1/1000 a
  UTermN("kilo2_a", "A", "k2a", <<10, 1>>, 2, << <<"ka", 1>> >>),       \* 10^2 ka = 1000 a
  UTerm("sq", "A2", "sq", << <<"ha", 1>>, <<"ka", 1>> >>),
  UTerm("ppka", "MpA", "ppka", << <<"p", 1>>, <<"ka", -1>> >>),
  UTerm("kbc", "A", "kbc", << <<"ka", 1>>, <<"b", 1>>, <<"cb", -1>> >>),   \* two convertible units, the later one with exponent -1
  UTerm("kbc2", "A", "kbc2", << <<"cb", 2>>, <<"ka", 1>>, <<"b", -2>> >>),
  UDerive("kacb_dup", "AB", "ka", <<"ka", "cb">>),                         \* valid definition, symbol already taken
  UTerm("sq_dup", "A2", "a", << <<"ha", 1>>, <<"ka", 1>> >>),              \* valid definition, symbol already taken
  UDerive("ka2", "A2", "ka2", <<"ka">>),
  UDerive("kacb", "AB", "kacb", <<"ka", "cb">>),
  UDerive("kapcb2", "ApB2", "kapcb2", <<"ka", "cb">>),      \* ka / cb^2 - must not be taken for ka / cb
  UTerm("kk", "A2", "kk", << <<"ka", 1>>, <<"ka", 1>> >>),  \* same definition as ka2 (100 a^2): scale must not depend on the order
  UDerive("arity", "AB", "w1", <<"ka">>),                   \* wrong number of base units
  UDerive("wrongorder", "AB", "w2", <<"b", "ka">>),         \* units do not match the base types
  UDerive("onbase", "A", "w3", <<"a">>),                    \* derive on a base type
  UDerive("ppkad", "MpA", "ppkad", <<"p", "ka">>),          \* p/ka derived from base-type units: can be declared BEFORE p/a
  UDerive("ppa", "MpA", "ppa", <<"p", "a">>),
  UDerive("qpa", "MpA", "qpa", <<"q", "a">>),
  OMul("m_ka_b", "ka", "b"),   OMul("m_b_ka", "b", "ka"),
  OMul("m_ka_ka", "ka", "ka"), OMul("m_a_ha", "a", "ha"),
  OMul("m_ka_cb", "ka", "cb"), OMul("m_b_bi", "b", "bi"), OMul("m_ha_ka", "ha", "ka"),
  OMul("m_apb_b", "apb", "b"), OMul("m_ppa_a", "ppa", "a"), OMul("m_ppa_ka", "ppa", "ka"),
  OMul("m_qpa_a", "qpa", "a"), OMul("m_a_qpa", "a", "qpa"), ODiv("d_ppa_qpa", "ppa", "qpa"),
  OMul("m_p_a", "p", "a"),     OMul("m_p_q", "p", "q"),
  ODiv("d_ka_cb", "ka", "cb"), ODiv("d_kk_ka", "kk", "ka"), ODiv("d_ka2_ka", "ka2", "ka"),
  ODiv("d_ppkad_ppa", "ppkad", "ppa"), ODiv("d_ppa_ppkad", "ppa", "ppkad"),
  ODiv("d_ka_b", "ka", "b"),   ODiv("d_a2_ka", "a2", "ka"), ODiv("d_ka_ha", "ka", "ha"),
  ODiv("d_ka_ka", "ka", "ka"), ODiv("d_p_a", "p", "a"),     ODiv("d_p_ka", "p", "ka"),
  ODiv("d_p_q", "p", "q"),     ODiv("d_p_p", "p", "p"),     ODiv("d_kab_b", "kab", "b"),
  OPow("p_ka_2", "ka", 2),     OPow("p_ka_m1", "b", -1),    OPow("p_ka_3", "ka", 3),
  OPow("p_a_0", "ka", 0),      OPow("p_ha_1", "ha", 1)
}
ItemOf(id) == CHOOSE i \in AllItems : i.id = id
MenuItems == {i \in AllItems : i.id \in Menu}

----------------------------------------------------------------------------
VARIABLES types,   \* Seq of [name, dim, ref]
          units,   \* Seq of [sym, typ, num, vec, base]
          cache,   \* set of [key, r] memo entries (successes only)
          out      \* outcome of the last step
vars == <<types, units, cache, out>>

TypeRecs == {types[i] : i \in DOMAIN types}
UnitRecs == {units[i] : i \in DOMAIN units}
HasType(n) == \E t \in TypeRecs : t.name = n
TypeByName(n) == CHOOSE t \in TypeRecs : t.name = n
HasUnit(s) == \E u \in UnitRecs : u.sym = s
UnitBySym(s) == CHOOSE u \in UnitRecs : u.sym = s
IdxOfUnit(s) == CHOOSE i \in DOMAIN units : units[i].sym = s
ValidSym(s) == s # "" /\ s # "#5"

(* dimension of a definition (sequence of <<type name, exp>>) *)
RECURSIVE DefDim(_, _)
DefDim(def, k) == IF k > Len(def) THEN ZeroDim
                  ELSE DAdd(DefDim(def, k + 1), TypeByName(def[k][1]).dim, def[k][2])
DefTypesKnown(def) == \A k \in DOMAIN def : HasType(def[k][1])
DefAllRef(def) == \A k \in DOMAIN def : TypeByName(def[k][1]).ref # NoName
(* denotation of the product of the reference units of a definition *)
RECURSIVE RefVec(_, _)
RefVec(def, k) == IF k > Len(def) THEN ZeroVec
                  ELSE VAdd(RefVec(def, k + 1), UnitBySym(TypeByName(def[k][1]).ref).vec, def[k][2])
(* denotation of a term of units: items = seq of <<unit symbol, exp>> *)
RECURSIVE TermNum(_, _), TermVec(_, _)
TermNum(items, k) == IF k > Len(items) THEN ROne
                     ELSE RMul(RPow(UnitBySym(items[k][1]).num, items[k][2]), TermNum(items, k + 1))
TermVec(items, k) == IF k > Len(items) THEN ZeroVec
                     ELSE VAdd(TermVec(items, k + 1), UnitBySym(items[k][1]).vec, items[k][2])
ItemsKnown(items) == \A k \in DOMAIN items : HasUnit(items[k][1])

(* result records *)
Res(st, f, u)   == [st |-> st, f |-> f, u |-> u]     \* st: "ok" (f * unit u) | "num" (plain f) | "undef" | "noconv"
Out(kind, id, r) == [kind |-> kind, id |-> id, r |-> r]
NoRes == Res("none", NoRat, NoName)

(***************************************************************************)
(* Two-stage resolution of a denotation, as the implementation performs    *)
(* it; `plain` tells whether the queried term is already factor-free and   *)
(* normalised (then stage 2 does not apply).                               *)
(***************************************************************************)
FirstWith(num, vec) ==
    LET S == {i \in DOMAIN units : units[i].num = num /\ units[i].vec = vec}
    IN  IF S = {} THEN 0 ELSE CHOOSE i \in S : \A j \in S : i <= j
Resolve2(num, vec) ==
    IF FirstWith(num, vec) # 0 THEN Res("ok", ROne, units[FirstWith(num, vec)].sym)
    ELSE IF vec = ZeroVec THEN Res("num", num, NoName)
    ELSE IF num # ROne /\ FirstWith(ROne, vec) # 0
         THEN Res("ok", num, units[FirstWith(ROne, vec)].sym)
    ELSE Res("undef", NoRat, NoName)

(* property-level, history-free result: the value in base units + its type *)
TypeOfVec(vec) == IF \E u \in UnitRecs : u.vec = vec
                  THEN (CHOOSE u \in UnitRecs : u.vec = vec).typ ELSE NoName
ValueOf(r) == IF r.st = "ok" THEN [num |-> RMul(r.f, UnitBySym(r.u).num), vec |-> UnitBySym(r.u).vec,
                                   typ |-> UnitBySym(r.u).typ]
              ELSE IF r.st = "num" THEN [num |-> r.f, vec |-> ZeroVec, typ |-> NoName]
              ELSE [num |-> NoRat, vec |-> ZeroVec, typ |-> r.st]

Scaled(t) == TypeByName(t).ref # NoName
FreshMul(s1, s2) ==
    LET a == UnitBySym(s1)  b == UnitBySym(s2)
    IN  Resolve2(RMul(a.num, b.num), VAdd(a.vec, b.vec, 1))
FreshDiv(s1, s2) ==
    LET a == UnitBySym(s1)  b == UnitBySym(s2)
    IN  IF a.typ = b.typ
        THEN IF s1 = s2 THEN Res("num", ROne, NoName)
             ELSE IF Scaled(a.typ) THEN Res("num", RDiv(a.num, b.num), NoName)
             \* without a reference unit only units built on the same base units have a common scale
             ELSE IF ~a.base /\ ~b.base /\ a.vec = b.vec THEN Res("num", RDiv(a.num, b.num), NoName)
             ELSE Res("noconv", NoRat, NoName)
        ELSE Resolve2(RDiv(a.num, b.num), VAdd(a.vec, b.vec, -1))
FreshPow(s1, n) ==
    LET a == UnitBySym(s1)
    IN  IF n = 0 THEN Res("num", ROne, NoName)
        ELSE IF n = 1 THEN Res("ok", ROne, s1)
        ELSE Resolve2(RPow(a.num, n), VMul(a.vec, n))
Key(op, s1, s2) == <<op, s1, s2>>
Cached(k) == \E c \in cache : c.key = k
CacheGet(k) == (CHOOSE c \in cache : c.key = k).r

----------------------------------------------------------------------------
Init == types = <<>> /\ units = <<>> /\ cache = {} /\ out = Out("init", "", NoRes)

Reject(i) == /\ out' = Out("rejected", i.id, NoRes)
             /\ UNCHANGED <<types, units, cache>>
Accept(i) == out' = Out("accepted", i.id, NoRes)

NewUnit(sym, typ, num, vec, base) == [sym |-> sym, typ |-> typ, num |-> num, vec |-> vec, base |-> base]

\* (types are identified by name in this specification, so a name is declared at most once)
DeclBase(i) ==
    /\ i.act = "base" /\ ~HasType(i.name)
    /\ IF i.ref # NoName /\ HasUnit(i.ref) THEN Reject(i)
       ELSE /\ types' = Append(types, [name |-> i.name, ref |-> i.ref, q |-> i.f,
                                       dim |-> [t \in BaseTypes |-> IF t = i.name THEN 1 ELSE 0]])
            /\ units' = IF i.ref = NoName THEN units
                        ELSE Append(units, NewUnit(i.ref, i.name, ROne, UnitVec(i.ref), TRUE))
            /\ cache' = cache /\ Accept(i)

(* the symbol a derived type's reference unit gets: explicit, or generated  *)
(* ("GEN": the harness learns the actual text from the library; the spec    *)
(* names it gen:<type name>)                                                *)
RefSym(i) == IF i.ref = "GEN" THEN "gen:" \o i.name ELSE i.ref
\* A derived type gets a reference unit when a symbol is given explicitly (if its components lack reference
\* units that unit has no definition - it is a base unit of its own) or when one can be generated from the
\* components' reference units.
DeclDerived(i) ==
    /\ i.act = "derived" /\ DefTypesKnown(i.def) /\ ~HasType(i.name)
    /\ LET withref == IF i.ref = "GEN" THEN DefAllRef(i.def) ELSE i.ref # NoName IN
       IF (\E t \in TypeRecs : t.dim = DefDim(i.def, 1))                \* dimension taken
               \/ (withref /\ HasUnit(RefSym(i)))                        \* symbol taken
            THEN Reject(i)
       ELSE /\ types' = Append(types, [name |-> i.name, ref |-> IF withref THEN RefSym(i) ELSE NoName, q |-> NoRat,
                                       dim |-> DefDim(i.def, 1)])
            /\ units' = IF ~withref THEN units
                        ELSE IF DefAllRef(i.def)
                        THEN Append(units, NewUnit(RefSym(i), i.name, ROne, RefVec(i.def, 1), FALSE))
                        ELSE Append(units, NewUnit(RefSym(i), i.name, ROne, UnitVec(RefSym(i)), TRUE))
            /\ cache' = cache /\ Accept(i)

DeclBadDef(i) == i.act = "baddef" /\ HasUnit(i.of) /\ ~HasType(i.name) /\ Reject(i)

AddUnit(i, num, vec, base) ==
    /\ units' = Append(units, NewUnit(i.sym, i.typ, num, vec, base))
    /\ UNCHANGED <<types, cache>> /\ Accept(i)

\* A unit defined as factor * unit is defined by a QUANTITY, and for a type with a quantum that quantity is
\* rounded like any other (default mode ROUND_HALF_EVEN) to the parent unit's quantum = type quantum / scale.
DefiningAmount(i) ==
    LET tq == TypeByName(i.typ).q  p == UnitBySym(i.of)
    IN  IF tq = NoRat THEN i.f ELSE RoundTo(i.f, RDiv(tq, p.num), "ROUND_HALF_EVEN")
NewScaled(i) ==
    /\ i.act = "scaled" /\ HasType(i.typ) /\ HasUnit(i.of)
    /\ IF ~ValidSym(i.sym) \/ HasUnit(i.sym) \/ UnitBySym(i.of).typ # i.typ THEN Reject(i)
       ELSE AddUnit(i, RMul(DefiningAmount(i), UnitBySym(i.of).num), UnitBySym(i.of).vec, FALSE)

NewPlain(i) ==
    /\ i.act = "plain" /\ HasType(i.typ)
    /\ IF ~ValidSym(i.sym) \/ HasUnit(i.sym) THEN Reject(i)
       ELSE AddUnit(i, ROne, UnitVec(i.sym), TRUE)

NewTerm(i) ==
    /\ i.act = "term" /\ HasType(i.typ) /\ ItemsKnown(i.items)
    /\ LET num == IF i.f = NoRat THEN TermNum(i.items, 1) ELSE RMul(RPow(i.f, i.n), TermNum(i.items, 1))
           vec == TermVec(i.items, 1)
           r == Resolve2(num, vec)
       IN  IF ~ValidSym(i.sym) \/ HasUnit(i.sym) \/ r.st # "ok" \/ UnitBySym(r.u).typ # i.typ
           THEN Reject(i)
           ELSE AddUnit(i, num, vec, FALSE)

RECURSIVE ArgsMatch(_, _, _)
ArgsMatch(args, def, k) == k > Len(args) \/ (UnitBySym(args[k]).typ = def[k][1] /\ ArgsMatch(args, def, k + 1))
RECURSIVE DerNum(_, _, _), DerVec(_, _, _)
DerNum(args, def, k) == IF k > Len(args) THEN ROne
                        ELSE RMul(RPow(UnitBySym(args[k]).num, def[k][2]), DerNum(args, def, k + 1))
DerVec(args, def, k) == IF k > Len(args) THEN ZeroVec
                        ELSE VAdd(DerVec(args, def, k + 1), UnitBySym(args[k]).vec, def[k][2])
TypeDef(n) == (CHOOSE i \in AllItems : i.act \in {"base", "derived"} /\ i.name = n).def
NewDerived(i) ==
    /\ i.act = "derive" /\ HasType(i.typ) /\ \A k \in DOMAIN i.items : HasUnit(i.items[k])
    /\ LET def == TypeDef(i.typ) IN
       IF def = <<>> \/ Len(i.items) # Len(def) \/ ~ArgsMatch(i.items, def, 1)
          \/ ~ValidSym(i.sym) \/ HasUnit(i.sym)
       THEN Reject(i)
       ELSE AddUnit(i, DerNum(i.items, def, 1), DerVec(i.items, def, 1), FALSE)

(* operations: the memo is consulted first; only successes are stored *)
DoOp(i) ==
    /\ i.act \in {"mul", "div", "pow"} /\ HasUnit(i.sym) /\ (i.act = "pow" \/ HasUnit(i.of))
    /\ LET k == Key(i.act, i.sym, IF i.act = "pow" THEN "" ELSE i.of)
           fresh == CASE i.act = "mul" -> FreshMul(i.sym, i.of)
                      [] i.act = "div" -> FreshDiv(i.sym, i.of)
                      [] i.act = "pow" -> FreshPow(i.sym, i.n)
       IN  IF i.act # "pow" /\ Cached(k)
           THEN out' = Out("op", i.id, CacheGet(k)) /\ cache' = cache
           ELSE /\ out' = Out("op", i.id, fresh)
                /\ cache' = IF i.act # "pow" /\ fresh.st \in {"ok", "num"}
                            THEN cache \cup {[key |-> k, r |-> fresh]} ELSE cache
    /\ UNCHANGED <<types, units>>

\* C04 / C19 on units of a type WITH reference unit: equal <=> same type and same scale.  Without a reference unit
\* there is no scale: the adapter only demands a consistent relation there (reflexive, symmetric, equal => same hash)
UnitEq(u, v) == u.typ = v.typ /\ TypeByName(u.typ).ref # NoName /\ u.num = v.num

\* the guards under which an item can be attempted at all (its operands exist)
CanTry(i) ==
    CASE i.act = "base"    -> ~HasType(i.name)
      [] i.act = "derived" -> DefTypesKnown(i.def) /\ ~HasType(i.name)
      [] i.act = "baddef"  -> HasUnit(i.of) /\ ~HasType(i.name)
      [] i.act = "scaled"  -> HasType(i.typ) /\ HasUnit(i.of)
      [] i.act = "plain"   -> HasType(i.typ)
      [] i.act = "term"    -> HasType(i.typ) /\ ItemsKnown(i.items)
      [] i.act = "derive"  -> HasType(i.typ) /\ \A k \in DOMAIN i.items : HasUnit(i.items[k])
      [] i.act = "pow"     -> HasUnit(i.sym)
      [] OTHER             -> HasUnit(i.sym) /\ HasUnit(i.of)
Step(i) == DeclBase(i) \/ DeclDerived(i) \/ DeclBadDef(i) \/ NewScaled(i) \/ NewPlain(i) \/ NewTerm(i)
           \/ NewDerived(i) \/ DoOp(i)
Next == \E i \in MenuItems : Step(i)
\* the initial state has level 1: histories of at most MaxSteps steps
Bound == TLCGet("level") <= MaxSteps + 1
Spec == Init /\ [][Next]_vars

----------------------------------------------------------------------------
(* C15 *)
SymUnique == \A i, j \in DOMAIN units : units[i].sym = units[j].sym => i = j
DimUnique == \A i, j \in DOMAIN types : types[i].dim = types[j].dim => i = j
OwnType   == \A u \in UnitRecs : HasType(u.typ)
VecType   == \A u, w \in UnitRecs : u.vec = w.vec => u.typ = w.typ
RefUnitOfDerived ==
    \A t \in TypeRecs : t.ref # NoName =>
        /\ HasUnit(t.ref) /\ UnitBySym(t.ref).typ = t.name /\ UnitBySym(t.ref).num = ROne
(* C16 *)
RejectedLeavesNoTrace == [][out'.kind = "rejected" => UNCHANGED <<types, units, cache>>]_vars
(* C17: the memo never disagrees with a fresh, history-free evaluation *)
FreshOf(k) == CASE k[1] = "mul" -> FreshMul(k[2], k[3])
                [] k[1] = "div" -> FreshDiv(k[2], k[3])
CacheCoherent == \A c \in cache : ValueOf(c.r) = ValueOf(FreshOf(c.key))
(* an operation result is defined exactly when a declared unit has its vector *)
DefinedIffDeclared ==
    out.kind = "op" /\ out.r.st = "undef" =>
        LET i == ItemOf(out.id)  a == UnitBySym(i.sym)
            vec == CASE i.act = "mul" -> VAdd(a.vec, UnitBySym(i.of).vec, 1)
                     [] i.act = "div" -> VAdd(a.vec, UnitBySym(i.of).vec, -1)
                     [] i.act = "pow" -> VMul(a.vec, i.n)
        IN  ~\E u \in UnitRecs : u.vec = vec /\ u.num = ROne
View == <<types, units, cache>>
=============================================================================
