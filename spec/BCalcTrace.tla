------------------------------ MODULE BCalcTrace ------------------------------
(* Self-contained events (operands written out) recorded from the real library  *)
(* over the predefined catalogue - by the harness's drivers or by the tracer     *)
(* while the repository's own test suite runs - judged against BCalc.tla.        *)
EXTENDS BCalc, Json, IOUtils, TLC, TLCExt
Tr == JsonDeserialize(IOEnv.TRACE_FILE)
VARIABLE i
SeqRange(s) == {s[j] : j \in DOMAIN s}
Lim(s) == [j \in DOMAIN s |-> s[j]]
Qj(j) == [s |-> j.s, n |-> Lim(j.n), d |-> Lim(j.d)]
\* operand / observation: [k, t, u, a, x, mro, b, w (witness: amount / quantum as signed integer)]
V(o) == [k |-> o.k, t |-> o.t, u |-> o.u, a |-> Qj(o.a), x |-> o.x, b |-> o.b]
J(b) == IF b THEN "ok" ELSE "bad"
KnownV(o) == o.k \notin {"q", "u"} \/ (Known(o.u) /\ TypeOfU(o.u) = o.t)

\* observed amount a (with witness w) is `exact` rounded once to quantum qu under mode m
RoundedTo(exact, qu, a, w, m) ==
    IF qu = NoQ THEN QEqv(a, exact)
    ELSE LET e == QDiv(exact, qu)       \* exact / quantum = e.n / e.d
             R == Lim(w.n)
         IN  /\ QEqv(a, QMul(QMk(w.s, R, BOne), qu))                  \* the witness is amount / quantum
             /\ (e.s = 0 => R = <<>>)
             /\ (e.s # 0 => (IsRounded(e.n, e.d, R, m, e.s = -1) /\ (R = <<>> \/ w.s = e.s)))
Match(ex, o, m) ==
    CASE ex.k = "skip" -> "oor"
      [] ex.k = "e" -> J(o.k = "e" /\ ex.x \in SeqRange(o.mro))
      [] ex.k = "n" -> J(o.k = "n" /\ QEqv(Qj(o.a), ex.a))
      [] ex.k = "b" -> J(o.k = "b" /\ o.b = ex.b)
      [] ex.k = "q" -> IF o.k # "q" \/ ~KnownV(o) THEN "bad"
                       ELSE J(o.t = ex.t /\ o.u = ex.u /\ RoundedTo(ex.a, UQuantumQ(ex.u), Qj(o.a), o.w, m))
      [] ex.k = "qv" -> IF o.k \notin {"q", "t"} \/ ~Known(o.u) \/ TypeOfU(o.u) # ex.t \/ o.t # ex.t THEN "bad"
                        ELSE IF o.k = "t" THEN J(QEqv(RefValQ(Qj(o.a), o.u), ex.a))       \* (factor, unit) pair: never rounded
                        ELSE J(RoundedTo(QDiv(ex.a, QScale(o.u)), UQuantumQ(o.u), Qj(o.a), o.w, m))
Foreign(o) == o.k \notin {"q", "u", "n"}          \* operand that is neither a quantity, a unit nor an exact number
Expected(ev) ==
    LET x == V(ev.x)  y == V(ev.y) IN
    IF ev.op \in {"Add", "Sub", "Mul", "Div"} /\ (Foreign(ev.x) \/ Foreign(ev.y)) THEN EE("TypeError")
    ELSE IF ev.op = "Pow" /\ ev.n = 99 THEN EE("TypeError")                            \* exponent is not an int
    ELSE
    CASE ev.op = "Make"    -> EQ(ev.x.u, x.a)
      [] ev.op = "Convert" -> ConvertE(x, ev.to)
      [] ev.op = "Add"     -> AddSubE(1, x, y)
      [] ev.op = "Sub"     -> AddSubE(-1, x, y)
      [] ev.op = "Neg"     -> EQ(x.u, QNeg(x.a))
      [] ev.op = "Abs"     -> EQ(x.u, QMk(IF x.a.s = 0 THEN 0 ELSE 1, x.a.n, x.a.d))
      [] ev.op = "Cmp"     -> CmpE(ev.c, x, y)
      [] ev.op = "Mul"     -> MulE(x, y)
      [] ev.op = "Div"     -> DivE(x, y)
      [] ev.op = "Pow"     -> PowE(x, ev.n)
Judge(ev) ==
    IF ~KnownV(ev.x) \/ ~KnownV(ev.y) THEN "oor"                \* operand outside the catalogue world
    ELSE IF ev.op = "Quantize" THEN
         \* result = the multiple K * quantum selected by the mode (witness K), then constructed
         LET x == V(ev.x)  y == V(ev.y) IN
         IF ~(IsQv(y) /\ y.t = x.t) \/ ~LinearT(x.t) THEN J(ev.res.k = "e" /\ "TypeError" \in SeqRange(ev.res.mro))
         ELSE IF x.a.s = 0 THEN J(ev.res.k = "q" /\ QEqv(Qj(ev.res.a), x.a) /\ ev.res.u = x.u)
         ELSE LET nq == EquivQ(y.a, y.u, x.u)
                  m == IF ev.rm = "NONE" THEN ev.mode ELSE ev.rm
                  K == QMk(ev.kw.s, Lim(ev.kw.n), BOne)
                  e == QDiv(x.a, nq)
              IN  IF nq.s = 0 THEN "oor"
                  ELSE IF ev.res.k # "q" \/ ev.res.u # x.u \/ ev.res.t # x.t THEN "bad"
                  ELSE IF UQuantumQ(x.u) # NoQ THEN "oor"          \* quantized types: re-rounded by the constructor (C05)
                  ELSE J(QEqv(Qj(ev.res.a), QMul(K, nq))
                         /\ IsRounded(e.n, e.d, K.n, m, e.s = -1) /\ (K.n = <<>> \/ K.s = e.s))
    ELSE Match(Expected(ev), ev.res, ev.mode)
Init == i = 1
Step == /\ i <= Len(Tr) /\ i' = i + 1
        /\ LET ev == Tr[i]  j == Judge(ev) IN IF j = "ok" THEN TRUE ELSE PrintT(<<"QV", j, ev.id, "">>)
TraceSpec == Init /\ [][Step]_i
Post == PrintT(<<"QVDONE", TLCGet("stats").diameter - 1, Len(Tr)>>) /\ TLCGet("stats").diameter = Len(Tr) + 1
=============================================================================
