------------------------------ MODULE CalcLaws ------------------------------
(***************************************************************************)
(* Laws of the value-level specification, checked by TLC for ALL contents  *)
(* of three registers drawn from a grid (constants N, Dens, Types): this   *)
(* is what carries the per-operation conformance of the implementation     *)
(* (trace validation against Calc) to the algebraic statements of C01,     *)
(* C03, C04, C05 and C19.  Registers are filled one after the other so     *)
(* that the search is spread over the workers.                             *)
(***************************************************************************)
EXTENDS Calc, TLC
CONSTANTS N, Dens, Types, Which
Ks == {<<2, 1>>, <<1, 3>>, <<-3, 7>>, <<1, 10>>}
VARIABLES x, y, z, m, k, u, v, pc
vars == <<x, y, z, m, k, u, v, pc>>

AmtGrid == {R(n, d) : n \in -N..N, d \in Dens}
QGrid(t) == {Qty(w, a) : w \in UnitsOf(t), a \in AmtGrid}
NeedY == Which \in {"add", "ord"}
NeedZ == Which \in {"add", "ord"}

Init == /\ x = EmptyV /\ y = EmptyV /\ z = EmptyV
        /\ m = "ROUND_HALF_EVEN" /\ k = ROne /\ u = NoName /\ v = NoName /\ pc = 0

Next ==
    \/ /\ pc = 0 /\ pc' = 1
       /\ \E t \in Types : \E q \in QGrid(t) : x' = q
       /\ m' \in (IF Which = "round" THEN Modes ELSE {"ROUND_HALF_EVEN"})
       /\ k' \in (IF Which \in {"add", "round"} THEN Ks ELSE {ROne})
       /\ UNCHANGED <<y, z, u, v>>
    \/ /\ pc = 1 /\ pc' = 2
       /\ IF NeedY THEN \E q \in QGrid(x.t) : y' = q ELSE y' = y
       /\ u' \in (IF Which \in {"conv", "round"} THEN UnitsOf(x.t) ELSE {x.u})
       /\ UNCHANGED <<x, z, m, k, v>>
    \/ /\ pc = 2 /\ pc' = 3
       /\ IF NeedZ THEN \E q \in QGrid(x.t) : z' = q ELSE z' = z
       /\ v' \in (IF Which = "conv" THEN UnitsOf(x.t) ELSE {u})
       /\ UNCHANGED <<x, y, m, k, u>>
    \/ pc = 3 /\ UNCHANGED vars
Spec == Init /\ [][Next]_vars

Ready == pc = 3
Lin(t) == TQuantum(t) = NoRat /\ Scalable(t)
IsOk(r) == r.k \in {"q", "qv", "n", "b"}
ValOf(r) == IF r.k = "q" THEN RefVal(r) ELSE r.a
NoOOR(S) == \A r \in S : r.k # "oor"

(* ---- C01 ------------------------------------------------------------- *)
ConvOK == Ready /\ Which = "conv" /\ Lin(x.t)
          /\ NoOOR({Convert(x, u, m), Convert(x, v, m), Convert(Convert(x, u, m), v, m)})
ConvertPreservesValue ==
    ConvOK => RefVal(Convert(x, u, m)) = RefVal(x)
RoundTrip ==
    ConvOK => Convert(Convert(x, u, m), x.u, m) = x
Triangle ==
    ConvOK =>
        Convert(Convert(x, u, m), v, m) = Convert(x, v, m)
ConvertedEqual ==
    ConvOK => Cmp("eq", x, Convert(x, u, m)).x = "TRUE"
ConvertKeepsType ==
    (Ready /\ Which = "conv" /\ Convert(x, u, m).k # "oor") =>
        Convert(x, u, m).t = x.t /\ Convert(x, u, m).u = u

(* ---- C03 ------------------------------------------------------------- *)
\* every term the laws mention has to stay inside the model's number range (the laws are about values, the
\* range is an artefact of TLC's integers)
Sums == {Add(x, y, m), Add(y, x, m), Add(Add(x, y, m), z, m), Add(y, z, m), Add(x, Add(y, z, m), m),
         Sub(x, y, m), Neg(x, m), Neg(y, m), Add(x, Neg(x, m), m), Add(x, Neg(y, m), m),
         MulNum(x, NumV(k), m), MulNum(y, NumV(k), m), MulNum(Add(x, y, m), NumV(k), m),
         Add(MulNum(x, NumV(k), m), MulNum(y, NumV(k), m), m), SumQ(<<x, y, z>>, m)}
AddLaws ==
    (Ready /\ Which = "add" /\ Lin(x.t) /\ NoOOR(Sums)) =>
        /\ Add(x, y, m).u = x.u /\ Add(x, y, m).t = x.t
        /\ RefVal(Add(x, y, m)) = RAdd(RefVal(x), RefVal(y))
        /\ RefVal(Sub(x, y, m)) = RSub(RefVal(x), RefVal(y))
        /\ RefVal(Add(x, y, m)) = RefVal(Add(y, x, m))                          \* commutative
        /\ RefVal(Add(Add(x, y, m), z, m)) = RefVal(Add(x, Add(y, z, m), m))    \* associative
        /\ RefVal(Add(x, Neg(x, m), m)) = RZero                                 \* inverse
        /\ Sub(x, y, m) = Add(x, Neg(y, m), m)
        /\ RefVal(MulNum(Add(x, y, m), NumV(k), m))
             = RefVal(Add(MulNum(x, NumV(k), m), MulNum(y, NumV(k), m), m))      \* distributive
        /\ SumQ(<<x, y, z>>, m) = Add(Add(x, y, m), z, m)

(* ---- C04 / C19 -------------------------------------------------------- *)
T(c, a, b) == Cmp(c, a, b).x = "TRUE"
OrderLaws ==
    (Ready /\ Which = "ord" /\ Scalable(x.t)
       /\ NoOOR({Cmp("lt", x, y), Cmp("lt", y, z), Cmp("lt", x, z), Cmp("lt", y, x)})) =>
        /\ T("eq", x, x) /\ T("le", x, x) /\ ~T("lt", x, x)
        /\ T("eq", x, y) = T("eq", y, x)
        /\ (T("eq", x, y) /\ T("eq", y, z)) => T("eq", x, z)
        /\ (T("lt", x, y) /\ T("lt", y, z)) => T("lt", x, z)
        /\ (T("le", x, y) /\ T("le", y, z)) => T("le", x, z)
        /\ T("lt", x, y) = T("gt", y, x) /\ T("le", x, y) = T("ge", y, x)
        /\ T("ne", x, y) = ~T("eq", x, y)
        /\ T("le", x, y) = (T("lt", x, y) \/ T("eq", x, y))
        \* exactly one of <, ==, >
        /\ (IF T("lt", x, y) THEN 1 ELSE 0) + (IF T("eq", x, y) THEN 1 ELSE 0)
             + (IF T("gt", x, y) THEN 1 ELSE 0) = 1
        \* the operators are the operators on exact reference values
        /\ T("lt", x, y) = RLt(RefVal(x), RefVal(y))
        /\ T("eq", x, y) = (RefVal(x) = RefVal(y))
        \* equality is equality of the abstract hash key (C19)
        /\ T("eq", x, y) = (HashKey(x) = HashKey(y))

(* ---- C05 ------------------------------------------------------------- *)
OnGrid(r) == r.k = "q" => (SQuantum(r.u) = NoRat \/ IsMultiple(r.a, SQuantum(r.u)))
Produced == {Make(x.t, x.a, x.u, m), MulNum(x, NumV(k), m), DivNum(x, NumV(k), m),
             Convert(x, u, m), Neg(x, m), AbsQ(x, m), Add(x, Convert(x, u, m), m),
             Sub(Convert(x, u, m), x, m), Quantize(x, Qty(u, k), NoName, m)}
GridInv == (Ready /\ Which = "round") => \A r \in Produced : OnGrid(r)
\* rounded once: within one quantum of the exact result, half a quantum under
\* the half modes, never on the wrong side under the directed modes
ExactMulNum == RMul(x.a, k)
RoundedOnce ==
    (Ready /\ Which = "round" /\ SQuantum(x.u) # NoRat /\ MulNum(x, NumV(k), m).k = "q") =>
        LET r  == RDiv(MulNum(x, NumV(k), m).a, SQuantum(x.u))
            e  == RDiv(ExactMulNum, SQuantum(x.u))
        IN  /\ WithinOne(e, r)
            /\ (m \in HalfModes => WithinHalf(e, r))
            /\ RightSide(e, r, m)
=============================================================================
