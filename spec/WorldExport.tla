---------------------------- MODULE WorldExport ----------------------------
(* Writes the world of World.tla, with the scale / quantum / dimension the   *)
(* specification derives for every unit and type, as JSON for the harness.   *)
EXTENDS World, Json, TLC, IOUtils
VARIABLE done
ExportSpec == done = JsonSerialize(IOEnv.WORLD_JSON,
                 [types |-> [i \in DOMAIN TypeDecls |->
                               [n |-> TypeDecls[i].n, def |-> TypeDecls[i].def,
                                ref |-> TypeDecls[i].ref, q |-> TypeDecls[i].q,
                                conv |-> TypeDecls[i].conv,
                                dim |-> DimOf(TypeDecls[i].n)]],
                  units |-> [i \in DOMAIN UnitDecls |->
                               [d |-> UnitDecls[i], scale |-> ScaleOf(UnitDecls[i].s),
                                quantum |-> UQuantum(UnitDecls[i].s)]],
                  ttable |-> World.ttable])
              /\ [][UNCHANGED done]_done
=============================================================================
