------------------------------ MODULE RateTable ------------------------------
(***************************************************************************)
(* A money converter's rate table (C11, and the converter-update half of   *)
(* C16).  State: the kind of validity fixed by the first accepted update,  *)
(* the entries (period, currency) -> rate from the base currency B, the    *)
(* date the configured default-date callable returns.  `obs` is the        *)
(* complete observable behaviour of the state: the rate reported for every *)
(* ordered currency pair and every effective date of a small calendar      *)
(* (and for the default date); it is a function of the other variables,    *)
(* kept as a variable only so that TLC writes it into the state graph that *)
(* the harness executes against the real MoneyConverter.                   *)
(*                                                                         *)
(* The spellings of validity periods and the rate-spec lists are menus of  *)
(* valid and invalid inputs; an update with an invalid spelling, a kind of *)
(* validity other than the fixed one, or ANY invalid rate spec is rejected *)
(* and changes nothing.                                                    *)
(***************************************************************************)
EXTENDS Rat, Sequences, FiniteSets, TLC
CONSTANTS Spellings, SpecLists, MaxSteps
NoRat == <<0, 0>>
Cur == {"B", "X", "Y"}
\* calendar
DateOf == [d1 |-> <<2020, 1, 1>>, d2 |-> <<2020, 1, 15>>, d3 |-> <<2020, 2, 1>>,
           d4 |-> <<2020, 12, 31>>, d5 |-> <<2021, 1, 15>>, d6 |-> <<2021, 2, 1>>]
DateIds == DOMAIN DateOf
LookupIds == DateIds \cup {"dflt"}

(* validity spellings: form + fields; per = normalised period or <<"bad">> *)
Sp(form, y, m, d, per) == [form |-> form, y |-> y, m |-> m, d |-> d, per |-> per]
SpellingOf == [
  none        |-> Sp("none", 0, 0, 0, <<"c">>),
  y2020       |-> Sp("int", 2020, 0, 0, <<"y", 2020>>),
  y2021       |-> Sp("int", 2021, 0, 0, <<"y", 2021>>),
  sy2020      |-> Sp("str_y", 2020, 0, 0, <<"y", 2020>>),
  y0          |-> Sp("int", 0, 0, 0, <<"bad">>),
  sybad       |-> Sp("str_ybad", 2020, 0, 0, <<"bad">>),
  m2020_1     |-> Sp("tuple", 2020, 1, 0, <<"m", 2020, 1>>),
  m2020_2     |-> Sp("tuple", 2020, 2, 0, <<"m", 2020, 2>>),
  m2021_1     |-> Sp("tuple", 2021, 1, 0, <<"m", 2021, 1>>),
  ms2020_1    |-> Sp("tuple_str", 2020, 1, 0, <<"m", 2020, 1>>),
  sm2020_01   |-> Sp("str_ym", 2020, 1, 0, <<"m", 2020, 1>>),
  m13         |-> Sp("tuple", 2020, 13, 0, <<"bad">>),
  sm13        |-> Sp("str_ym", 2020, 13, 0, <<"bad">>),
  d2020_1_15  |-> Sp("date", 2020, 1, 15, <<"d", 2020, 1, 15>>),
  d2020_1_1   |-> Sp("date", 2020, 1, 1, <<"d", 2020, 1, 1>>),
  d2021_2_1   |-> Sp("date", 2021, 2, 1, <<"d", 2021, 2, 1>>),
  sd2020_1_15 |-> Sp("str_ymd", 2020, 1, 15, <<"d", 2020, 1, 15>>),
  sdbad       |-> Sp("str_ymd", 2020, 2, 31, <<"bad">>),
  s4          |-> Sp("str_4parts", 2020, 1, 1, <<"bad">>),
  flt         |-> Sp("float", 2020, 0, 0, <<"bad">>)]

(* rate-spec lists: sequences of <<currency, term amount, unit multiple>> *)
SpecListOf == [
  x2     |-> << <<"X", <<2, 1>>, 1>> >>,
  x4     |-> << <<"X", <<4, 1>>, 1>> >>,
  y5     |-> << <<"Y", <<5, 1>>, 1>> >>,
  y125   |-> << <<"Y", <<5, 4>>, 1>> >>,
  x2y5   |-> << <<"X", <<2, 1>>, 1>>, <<"Y", <<5, 1>>, 1>> >>,
  x20p10 |-> << <<"X", <<20, 1>>, 10>> >>,
  x20p1  |-> << <<"X", <<20, 1>>, 1>> >>,                         \* the same term amount per ONE unit
  x12    |-> << <<"X", <<6, 5>>, 1>> >>,                          \* 1.2 and 8.5: the cross rates do not terminate
  y85    |-> << <<"Y", <<17, 2>>, 1>> >>,
  xx     |-> << <<"X", <<2, 1>>, 1>>, <<"X", <<4, 1>>, 1>> >>,
  xbad0  |-> << <<"X", <<0, 1>>, 1>> >>,
  x4ybad |-> << <<"X", <<4, 1>>, 1>>, <<"Y", <<-1, 1>>, 1>> >>,
  chfstr |-> << <<"X", <<4, 1>>, 1>>, <<"CHFs", <<3, 1>>, 1>> >>,   \* a term currency given as the ISO code of a currency nobody registered
  bident |-> << <<"B", <<2, 1>>, 1>> >>,
  empty  |-> <<>> ]
ValidSpec(s) == s[1] \notin {"B", "CHFs"} /\ s[2][1] > 0 /\ s[3] >= 1
RateOfSpec(s) == RDiv(s[2], <<s[3], 1>>)

VARIABLES kind, table, today, obs, out
vars == <<kind, table, today, obs, out>>

KindOfPer(p) == p[1]
PeriodOf(k, dt) == CASE k = "c" -> <<"c">>
                     [] k = "y" -> <<"y", dt[1]>>
                     [] k = "m" -> <<"m", dt[1], dt[2]>>
                     [] k = "d" -> <<"d", dt[1], dt[2], dt[3]>>
Has(tb, p, c) == \E e \in tb : e.per = p /\ e.cur = c
Get(tb, p, c) == (CHOOSE e \in tb : e.per = p /\ e.cur = c).r
Put(tb, p, c, r) == {e \in tb : ~(e.per = p /\ e.cur = c)} \cup {[per |-> p, cur |-> c, r |-> r]}
RECURSIVE PutAll(_, _, _, _)
PutAll(tb, p, specs, k) == IF k > Len(specs) THEN tb
                           ELSE PutAll(Put(tb, p, specs[k][1], RateOfSpec(specs[k])), p, specs, k + 1)

(* the rate reported from a to b for date dt *)
Rate(k, tb, a, b, dt) ==
    IF a = b THEN ROne
    ELSE IF k = "none" THEN NoRat
    ELSE LET p == PeriodOf(k, dt) IN
         IF a = "B" THEN (IF Has(tb, p, b) THEN Get(tb, p, b) ELSE NoRat)
         ELSE IF b = "B" THEN (IF Has(tb, p, a) THEN RInv(Get(tb, p, a)) ELSE NoRat)
         ELSE IF Has(tb, p, a) /\ Has(tb, p, b) THEN RDiv(Get(tb, p, b), Get(tb, p, a))
         ELSE NoRat
ObsOf(k, tb, td) == [q \in Cur \X Cur \X LookupIds |->
                        Rate(k, tb, q[1], q[2], IF q[3] = "dflt" THEN DateOf[td] ELSE DateOf[q[3]])]

Init == kind = "none" /\ table = {} /\ today = "d2" /\ obs = ObsOf("none", {}, "d2")
        /\ out = [act |-> "init", a |-> "", b |-> "", ok |-> TRUE]

Update(sp, sl) ==
    LET s == SpellingOf[sp]  specs == SpecListOf[sl]
        valid == /\ s.per # <<"bad">>
                 /\ (kind = "none" \/ kind = KindOfPer(s.per))
                 /\ \A k \in DOMAIN specs : ValidSpec(specs[k])
    IN  IF valid
        THEN /\ kind' = KindOfPer(s.per)
             /\ table' = PutAll(table, s.per, specs, 1)
             /\ out' = [act |-> "update", a |-> sp, b |-> sl, ok |-> TRUE]
        ELSE /\ UNCHANGED <<kind, table>>
             /\ out' = [act |-> "update", a |-> sp, b |-> sl, ok |-> FALSE]
SetToday(d) == /\ today' = d /\ UNCHANGED <<kind, table>>
               /\ out' = [act |-> "settoday", a |-> d, b |-> "", ok |-> TRUE]
Next == /\ \/ \E sp \in Spellings, sl \in SpecLists : Update(sp, sl) /\ today' = today
           \/ \E d \in {"d1", "d3", "d5"} : today # d /\ SetToday(d)
        /\ obs' = ObsOf(kind', table', today')
\* the initial state has level 1: histories of at most MaxSteps steps
Bound == TLCGet("level") <= MaxSteps + 1
Spec == Init /\ [][Next]_vars

(* ---- properties ------------------------------------------------------- *)
ObsIsFunctionOfState == obs = ObsOf(kind, table, today)
RejectedUpdateNoChange == [][~out'.ok => UNCHANGED <<kind, table>>]_vars
OneKind == \A e \in table : KindOfPer(e.per) = kind
\* entries of other periods never influence a result
PeriodIsolation ==
    \A a, b \in Cur : \A d \in DateIds :
        kind # "none" =>
            Rate(kind, table, a, b, DateOf[d])
              = Rate(kind, {e \in table : e.per = PeriodOf(kind, DateOf[d])}, a, b, DateOf[d])
\* rate and reverse rate are reciprocal, identity is one
Reciprocal == \A a, b \in Cur : \A d \in DateIds :
    LET r == Rate(kind, table, a, b, DateOf[d])  s == Rate(kind, table, b, a, DateOf[d])
    IN  (r = NoRat) = (s = NoRat) /\ (r # NoRat => RMul(r, s) = ROne)
=============================================================================
