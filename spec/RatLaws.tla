----------------------------- MODULE RatLaws -----------------------------
(***************************************************************************)
(* Self-check of Rat: on a grid of rationals every rounding mode satisfies *)
(* its defining inequalities, integers are fixed points, rounding is       *)
(* monotone, and the field laws hold.  This is what makes RoundInt usable   *)
(* as an oracle that is independent of the implementation.                 *)
(***************************************************************************)
EXTENDS Rat
CONSTANTS N, D
VARIABLES x, y, m
vars == <<x, y, m>>
Grid == {R(n, d) : n \in -N..N, d \in 1..D}
Init == x \in Grid /\ y \in Grid /\ m \in Modes
Next == UNCHANGED vars
Spec == Init /\ [][Next]_vars

r == RInt(RoundInt(x, m))
Normalised   == IsRat(x) /\ IsRat(RAdd(x, y)) /\ IsRat(RMul(x, y)) /\ IsRat(RSub(x, y))
ErrBelowOne  == WithinOne(x, r)
HalfModesOK  == m \in HalfModes => WithinHalf(x, r)
Directed     == RightSide(x, r, m)
IntsFixed    == RIsInt(x) => r = x
Monotone     == RLe(x, y) => RoundInt(x, m) <= RoundInt(y, m)
\* ties: exactly the stated rule
IsTie        == TieCmp(x) = 0 /\ ~RIsInt(x)
TieRule      == IsTie =>
                  /\ m = "ROUND_HALF_UP"   => Abs(RoundInt(x, m)) = Abs(Toward0(x)) + 1
                  /\ m = "ROUND_HALF_DOWN" => RoundInt(x, m) = Toward0(x)
                  /\ m = "ROUND_HALF_EVEN" => RoundInt(x, m) % 2 = 0
NegSymmetric == m \in {"ROUND_HALF_UP", "ROUND_HALF_DOWN", "ROUND_HALF_EVEN",
                       "ROUND_DOWN", "ROUND_UP", "ROUND_05UP"}
                  => RoundInt(RNeg(x), m) = -RoundInt(x, m)
FloorCeilDual == Floor(RNeg(x)) = -Ceil(x)
FieldLaws ==
    /\ RAdd(x, y) = RAdd(y, x)
    /\ RMul(x, y) = RMul(y, x)
    /\ RSub(RAdd(x, y), y) = x
    /\ (y # RZero => RMul(RDiv(x, y), y) = x)
    /\ RAdd(x, RNeg(x)) = RZero
    /\ (RLt(x, y) \/ x = y \/ RLt(y, x))
    /\ ~(RLt(x, y) /\ RLt(y, x))
RoundToGrid == y # RZero => IsMultiple(RoundTo(x, y, m), y)
=============================================================================
