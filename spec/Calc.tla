-------------------------------- MODULE Calc --------------------------------
(***************************************************************************)
(* Value-level semantics of quantities over the catalogue of World.tla:    *)
(* construction, conversion, + - * / **, comparison, quantize, round,      *)
(* hashing keys.  Every operator is a pure function from operand values    *)
(* (and the active default rounding mode) to a result value; the register  *)
(* machine at the end threads results into later operations, which is how  *)
(* "however it was produced" (C05) is explored.                            *)
(*                                                                         *)
(* Written from the property statements C01-C06, C13, C14, C19 and the     *)
(* documentation, not from the code: e.g. a product is specified by its    *)
(* quantity type and its exact value in reference units only - the unit    *)
(* the library picks is left open ("qv" results).                          *)
(***************************************************************************)
EXTENDS World

(* Uniform value records (TLC cannot compare records of different shapes). *)
(*  k = "q"  quantity: type t, unit u, amount a                             *)
(*      "qv" quantity by value: type t, a = exact value in reference units  *)
(*      "n"  plain number a        "b" boolean x \in {"TRUE","FALSE"}       *)
(*      "u"  a unit operand u      "e" exception class x                    *)
(*      "tv" (factor, unit) pair by value: type t, a = factor * scale       *)
(*      "oor" out of model range   "0" empty register                       *)
Val(k, t, u, a, x) == [k |-> k, t |-> t, u |-> u, a |-> a, x |-> x]
Qty(u, a)  == Val("q", TypeOf(u), u, a, "")
QtyV(t, v) == Val("qv", t, NoName, v, "")
TupV(t, v) == Val("tv", t, NoName, v, "")
NumV(a)    == Val("n", NoName, NoName, a, "")
UnitV(u)   == Val("u", TypeOf(u), u, ROne, "")
BoolV(b)   == Val("b", NoName, NoName, NoRat, IF b THEN "TRUE" ELSE "FALSE")
ErrV(e)    == Val("e", NoName, NoName, NoRat, e)
OORV       == Val("oor", NoName, NoName, NoRat, "")
EmptyV     == Val("0", NoName, NoName, NoRat, "")
IsQ(v)  == v.k = "q"
IsN(v)  == v.k = "n"
IsU(v)  == v.k = "u"
IsQU(v) == v.k \in {"q", "u"}

\* every amount held by a model value is within the safe range
Guard(a, v) == IF ~Small(a) THEN OORV ELSE v

(***************************************************************************)
(* The single choke point of C05: an amount in unit u is the exact result  *)
(* rounded once, with the active default mode, to the unit's quantum.      *)
(***************************************************************************)
SQuantum(u) == UQuantum(u)                    \* world constants: always small
Construct(u, exact, mode) ==
    IF ~Small(exact) THEN OORV
    ELSE IF SQuantum(u) = NoRat THEN Qty(u, exact)
    ELSE Guard(SRoundTo(exact, SQuantum(u), mode),
               Qty(u, SRoundTo(exact, SQuantum(u), mode)))

TQuantum(t) == TypeRec(t).q
\* value (in reference units) of a type with a quantum, rounded once
ConstructV(t, exactv, mode) ==
    IF ~Small(exactv) THEN OORV
    ELSE IF TQuantum(t) = NoRat THEN QtyV(t, exactv)
    ELSE Guard(SRoundTo(exactv, TQuantum(t), mode),
               QtyV(t, SRoundTo(exactv, TQuantum(t), mode)))

(* amount of quantity/unit operand v expressed in unit w of the same type;  *)
(* NoRat when there is no conversion, OOR when out of range                 *)
STableConv(tab, a, u, v) ==
    IF u = v THEN a
    ELSE IF HasRow(tab, u, v) THEN SAdd(SMul(a, Row(tab, u, v)[3]), Row(tab, u, v)[4])
    ELSE IF HasRow(tab, v, u) THEN SDiv(SSub(a, Row(tab, v, u)[4]), Row(tab, v, u)[3])
    ELSE NoRat
Equiv(v, w) ==
    IF v.u = w THEN v.a
    ELSE CASE ConvKind(v.t) = "scale" -> SMul(v.a, RDiv(ScaleOf(v.u), ScaleOf(w)))
           [] ConvKind(v.t) = "table" -> STableConv(TTable, v.a, v.u, w)
           [] OTHER                   -> NoRat
\* the same with a money converter active: currencies convert by the converter's rates
EquivMC(v, w) == IF v.t = "Money" /\ v.u # w THEN SMul(v.a, MRate(v.u, w)) ELSE Equiv(v, w)
\* exact value in reference units (scale types only)
RefVal(v) == SMul(v.a, ScaleOf(v.u))

----------------------------------------------------------------------------
(* Construction from a number (C15, C18).  cls: a type name or "Quantity"   *)
(* (the generic factory); u: unit symbol or NONE.                           *)
Make(cls, a, u, mode) ==
    IF u = NoName
    THEN IF cls = "Quantity" \/ ~HasRef(cls) THEN ErrV("QuantityError")
         ELSE Construct(RefOf(cls), a, mode)
    ELSE IF cls # "Quantity" /\ TypeOf(u) # cls THEN ErrV("QuantityError")
         ELSE Construct(u, a, mode)

(* C01 / C14 *)
Convert(q, w, mode) ==
    IF TypeOf(w) # q.t THEN ErrV("IncompatibleUnitsError")
    ELSE IF Equiv(q, w) = NoRat THEN ErrV("UnitConversionError")
    ELSE Construct(w, Equiv(q, w), mode)

(* C03 *)
AddSub(sgn, x, y, mode) ==
    IF IsQ(x) /\ IsQ(y)
    THEN IF x.t # y.t THEN ErrV("IncompatibleUnitsError")
         ELSE IF Equiv(y, x.u) = NoRat THEN ErrV("UnitConversionError")
         ELSE Construct(x.u, IF sgn = 1 THEN SAdd(x.a, Equiv(y, x.u))
                                        ELSE SSub(x.a, Equiv(y, x.u)), mode)
    ELSE ErrV("TypeError")                      \* quantity and plain number
Add(x, y, mode) == AddSub(1, x, y, mode)
Sub(x, y, mode) == AddSub(-1, x, y, mode)
Neg(x, mode)    == Construct(x.u, SNeg(x.a), mode)
AbsQ(x, mode)   == Construct(x.u, SAbs(x.a), mode)

(* the same operations on money while a money converter is active (C05, C12): the converted operand
   is NOT rounded before the operation - the result is rounded once *)
ConvertMC(q, w, mode) ==
    IF TypeOf(w) # q.t THEN ErrV("IncompatibleUnitsError") ELSE Construct(w, EquivMC(q, w), mode)
AddSubMC(sgn, x, y, mode) ==
    IF IsQ(x) /\ IsQ(y) /\ x.t = "Money" /\ y.t = "Money"
    THEN Construct(x.u, IF sgn = 1 THEN SAdd(x.a, EquivMC(y, x.u)) ELSE SSub(x.a, EquivMC(y, x.u)), mode)
    ELSE AddSub(sgn, x, y, mode)

(* C03 / C04: op \in {"lt","le","gt","ge","eq","ne"} *)
Tri(s) == IF s = "O" THEN OORV ELSE BoolV(s = "T")
\* units of one type compare like quantities of amount one (by their scale)
Cmp(op, x, y) ==
    IF ((IsQ(x) /\ IsQ(y)) \/ (IsU(x) /\ IsU(y))) /\ x.t = y.t
    THEN IF Equiv(y, x.u) = NoRat
         THEN (IF op = "eq" THEN BoolV(FALSE) ELSE IF op = "ne" THEN BoolV(TRUE)
               ELSE ErrV("UnitConversionError"))
         ELSE Tri(SCmp(op, x.a, Equiv(y, x.u)))
    ELSE IF op = "eq" THEN BoolV(FALSE)
    ELSE IF op = "ne" THEN BoolV(TRUE)
    ELSE IF (IsQ(x) /\ IsQ(y)) \/ (IsU(x) /\ IsU(y)) THEN ErrV("IncompatibleUnitsError")
    ELSE ErrV("TypeError")

CmpMC(op, x, y) ==
    IF IsQ(x) /\ IsQ(y) /\ x.t = "Money" /\ y.t = "Money" THEN Tri(SCmp(op, x.a, EquivMC(y, x.u)))
    ELSE Cmp(op, x, y)

(* quantity.sum(items) without start value: left fold of +, the result has  *)
(* the first item's unit (C03).                                             *)
RECURSIVE SumFold(_, _, _, _)
SumFold(acc, items, k, mode) ==
    IF k > Len(items) \/ acc.k # "q" THEN acc
    ELSE SumFold(Add(acc, items[k], mode), items, k + 1, mode)
SumQ(items, mode) == SumFold(items[1], items, 2, mode)

(* sorted(list): the observed order perm (indices into items) must be a     *)
(* permutation along which the exact values never decrease (C04).           *)
SortJudge(items, perm) ==
    IF Len(perm) # Len(items) \/ {perm[j] : j \in DOMAIN perm} # DOMAIN items THEN "bad"
    ELSE IF \E j \in 1..(Len(perm) - 1) :
               Cmp("le", items[perm[j]], items[perm[j + 1]]).k = "oor" THEN "oor"
    ELSE IF \A j \in 1..(Len(perm) - 1) :
               Cmp("le", items[perm[j]], items[perm[j + 1]]).x = "TRUE" THEN "ok"
    ELSE "bad"

(* C02: number * quantity, quantity / number *)
MulNum(q, k, mode) == Construct(q.u, SMul(q.a, k.a), mode)
DivNum(q, k, mode) == IF k.a = RZero THEN ErrV("ZeroDivisionError")
                      ELSE Construct(q.u, SDiv(q.a, k.a), mode)

(* C02: products / quotients / powers of quantities and units.  Types       *)
(* without reference unit have no compound units in this world, so every    *)
(* product involving them is undefined.                                     *)
DimAdd(d1, d2, s) == [b \in BaseTypes |-> d1[b] + s * d2[b]]
DimMul(d1, n)     == [b \in BaseTypes |-> n * d1[b]]
Scalable(t) == t \in TypeNames /\ ConvKind(t) = "scale"
\* result of combining value v (in reference units) with dimension dm;
\* rounded (once) only when a quantity takes part (unit op unit returns a
\* bare (factor, unit) pair)
Resolve(dm, v, rounded, mode) ==
    IF ~Small(v) THEN OORV
    ELSE IF dm = ZeroDim THEN NumV(v)
    ELSE IF TypeWithDim(dm) = NoName THEN ErrV("UndefinedResultError")
    ELSE IF rounded THEN ConstructV(TypeWithDim(dm), v, mode)
    ELSE TupV(TypeWithDim(dm), v)
Mul(x, y, mode) ==
    IF ~(Scalable(x.t) /\ Scalable(y.t)) THEN ErrV("UndefinedResultError")
    ELSE Resolve(DimAdd(DimOf(x.t), DimOf(y.t), 1), SMul(RefVal(x), RefVal(y)),
                 IsQ(x) \/ IsQ(y), mode)
ZeroOrUndef == ErrV("ZeroDivisionError|UndefinedResultError")
Div(x, y, mode) ==
    IF x.t = y.t
    THEN \* same type: the plain exact ratio
         IF Equiv(y, x.u) = NoRat THEN ErrV("UnitConversionError")
         ELSE IF Equiv(y, x.u) = RZero THEN ErrV("ZeroDivisionError")
         ELSE Guard(SDiv(x.a, Equiv(y, x.u)),
                    IF IsQ(x) \/ IsQ(y) THEN NumV(SDiv(x.a, Equiv(y, x.u)))
                    ELSE NumV(SDiv(x.a, Equiv(y, x.u))))
    ELSE IF ~(Scalable(x.t) /\ Scalable(y.t)) THEN ErrV("UndefinedResultError")
    \* a zero divisor AND no type for the quotient's dimension: the property does not say which of the two errors
    \* is reported - either is accepted (ZeroOrUndef)
    ELSE IF RefVal(y) = RZero
         THEN (IF Resolve(DimAdd(DimOf(x.t), DimOf(y.t), -1), ROne, TRUE, mode).k = "e" THEN ZeroOrUndef
               ELSE ErrV("ZeroDivisionError"))
    ELSE Resolve(DimAdd(DimOf(x.t), DimOf(y.t), -1), SDiv(RefVal(x), RefVal(y)),
                 IsQ(x) \/ IsQ(y), mode)
\* number / quantity-or-unit
RDivNum(k, y, mode) ==
    IF ~Scalable(y.t) THEN ErrV("UndefinedResultError")
    ELSE IF RefVal(y) = RZero
         THEN (IF Resolve(DimMul(DimOf(y.t), -1), ROne, TRUE, mode).k = "e" THEN ZeroOrUndef ELSE ErrV("ZeroDivisionError"))
    ELSE Resolve(DimMul(DimOf(y.t), -1), SDiv(k.a, RefVal(y)), TRUE, mode)
Pow(x, n, mode) ==
    IF n = 0 THEN NumV(ROne)
    ELSE IF n = 1 THEN Construct(x.u, x.a, mode)
    ELSE IF ~Scalable(x.t) THEN ErrV("UndefinedResultError")
    ELSE IF n < 0 /\ RefVal(x) = RZero
         THEN (IF Resolve(DimMul(DimOf(x.t), n), ROne, TRUE, mode).k = "e" THEN ZeroOrUndef ELSE ErrV("ZeroDivisionError"))
    ELSE Resolve(DimMul(DimOf(x.t), n), SPowI(RefVal(x), n), TRUE, mode)

(* C13.  rm: requested mode or NONE (=> default mode).  The result is       *)
(* constructed like any other instance, so for a quantized type it is      *)
(* subject to Construct.                                                    *)
Quantize(q, quant, rm, mode) ==
    IF ~IsQ(quant) \/ quant.t # q.t THEN ErrV("TypeError")
    ELSE IF ~HasRef(q.t) THEN ErrV("TypeError")
    ELSE IF q.a = RZero THEN q
    ELSE LET nq == Equiv(quant, q.u)
             m  == IF rm = NoName THEN mode ELSE rm
         IN  IF nq = RZero THEN ErrV("ZeroDivisionError")
             ELSE Construct(q.u, SRoundTo(q.a, nq, m), mode)

(* round(q, n): relational - a multiple of 10^-n nearest to the amount      *)
(* (the property does not fix the tie rule).                                *)
P10(n) == IF n >= 0 THEN <<1, IPowNat(10, n)>> ELSE <<IPowNat(10, -n), 1>>
\* mode: the configured default rounding mode.  The property does not say which rule round() follows; decimal
\* amounts follow the configured default mode, fractions round half-even - so under a directed default mode the
\* result may be up to (but not) one unit of the last place away, under the nearest modes at most half of it.
RoundJudge(q, n, r, mode) ==
    LET rq   == SDiv(r.a, P10(n))
        xq   == SDiv(q.a, P10(n))
        diff == SSub(rq, xq)
        qu   == SQuantum(q.u)
        nearest == mode \in {"ROUND_HALF_UP", "ROUND_HALF_DOWN", "ROUND_HALF_EVEN"}
        \* a quantized type constructs the rounded amount like any other instance (C05): the result is on the
        \* grid and at most half a quantum (a whole one under a directed mode) further away
        slack == IF qu = NoRat THEN RZero ELSE SDiv(SDiv(qu, P10(n)), IF nearest THEN <<2, 1>> ELSE ROne)
        lim  == SAdd(IF nearest THEN <<1, 2>> ELSE ROne, slack)
        near == IF nearest THEN RLe(RAbs(diff), lim) ELSE RLt(RAbs(diff), lim)
    IN  IF r.k # "q" \/ r.t # q.t \/ r.u # q.u THEN "bad"
        ELSE IF IsOOR(diff) \/ IsOOR(slack) \/ IsOOR(lim) THEN "oor"
        ELSE IF qu = NoRat THEN (IF RIsInt(rq) /\ near THEN "ok" ELSE "bad")
        ELSE IF IsMultiple(r.a, qu) /\ near THEN "ok" ELSE "bad"

(* C19 / C04: the abstract identity that equality is defined on.            *)
HashKey(q) == IF Scalable(q.t) THEN <<q.t, RefVal(q)>> ELSE <<q.t, q.u, q.a>>

(***************************************************************************)
(* Allocation (C06), relational: ratios are all plain numbers or all       *)
(* quantities of one scalable type; ps = observed portion amounts (in      *)
(* self's unit), rem = observed remainder amount.                          *)
(***************************************************************************)
RECURSIVE SSumSeq(_, _)
SSumSeq(s, k) == IF k > Len(s) THEN RZero ELSE SAdd(s[k], SSumSeq(s, k + 1))
RatioVal(r) == IF IsQ(r) THEN RefVal(r) ELSE r.a
Shares(q, ratios) ==
    LET vals  == [i \in DOMAIN ratios |-> RatioVal(ratios[i])]
        total == SSumSeq(vals, 1)
    IN  [i \in DOMAIN ratios |-> SDiv(SMul(q.a, vals[i]), total)]
AllocInRange(q, ratios, ps, rem) ==
    /\ \A i \in DOMAIN ratios : Small(RatioVal(ratios[i]))
    /\ \A i \in DOMAIN ps : Small(ps[i])
    /\ Small(rem) /\ Small(q.a)
    /\ \A i \in DOMAIN ratios : Small(Shares(q, ratios)[i])
    /\ Small(SSumSeq(ps, 1))
    /\ Small(SMul(RInt(Len(ps)), IF SQuantum(q.u) = NoRat THEN ROne ELSE SQuantum(q.u)))
    /\ SQuantum(q.u) # NoRat =>
          \A i \in DOMAIN ratios : Small(SDiv(Shares(q, ratios)[i], SQuantum(q.u)))
AllocOK(q, ratios, disperse, mode, ps, rem) ==
    LET sh == Shares(q, ratios)
        qu == SQuantum(q.u)
        n  == Len(ratios)
    IN  /\ Len(ps) = n
        /\ RAdd(SSumSeq(ps, 1), rem) = q.a                     \* conservation
        /\ IF qu = NoRat
           THEN /\ \A i \in 1..n : ps[i] = sh[i]
                /\ rem = RZero
           ELSE /\ \A i \in 1..n : IsMultiple(ps[i], qu)
                /\ \A i \in 1..n : RLt(RAbs(RSub(ps[i], sh[i])), qu)
                /\ IF disperse THEN rem = RZero
                   ELSE /\ \A i \in 1..n : ps[i] = RoundTo(sh[i], qu, mode)   \* rounded once (C05)
                        /\ RLt(RAbs(rem), RMul(RInt(n), qu)) \/ rem = RZero
                        /\ mode \in HalfModes =>
                              RLe(RAbs(rem), RMul(RInt(n), RMul(qu, <<1, 2>>)))
=============================================================================
