---------------------------- MODULE UnitsExport ----------------------------
(* Writes the menu of Units.tla (all candidate declarations / operations)    *)
(* as JSON for the replay adapter.                                           *)
EXTENDS Units, Json, IOUtils
VARIABLE done
ItemSeq == LET RECURSIVE ToSeq(_)
               ToSeq(S) == IF S = {} THEN <<>>
                           ELSE LET x == CHOOSE y \in S : TRUE IN <<x>> \o ToSeq(S \ {x})
           IN ToSeq(AllItems)
ExportSpec == Init /\ done = JsonSerialize(IOEnv.ITEMS_JSON, ItemSeq)
              /\ [][UNCHANGED <<vars, done>>]_<<vars, done>>
=============================================================================
