------------------------------- MODULE Rat -------------------------------
(***************************************************************************)
(* Exact rational arithmetic on normalised pairs <<n, d>> (d > 0,          *)
(* gcd(|n|, d) = 1) and the eight decimal rounding modes, defined          *)
(* declaratively from the standard definitions of the modes (candidate set *)
(* {floor, ceiling}; directed modes pick by direction, the HALF modes pick  *)
(* the nearer candidate and break exact ties by rule; 05UP is DOWN unless   *)
(* the truncated integer ends in 0 or 5).  Nothing here is transcribed     *)
(* from the implementation's divmod-based case analysis.                   *)
(*                                                                         *)
(* TLC integers are 32 bit and overflow is an error, so every caller keeps *)
(* numerators / denominators small enough (see the range guards of the     *)
(* harness); a value that is out of range can never silently pass.         *)
(***************************************************************************)
EXTENDS Integers

Abs(x) == IF x < 0 THEN -x ELSE x

RECURSIVE GCD(_, _)
GCD(a, b) == IF b = 0 THEN a ELSE GCD(b, a % b)

\* integer floor division for any sign of n (d > 0).  TLC's \div already
\* floors, but we do not rely on it for negative operands.
FloorDiv(n, d) == IF n >= 0 THEN n \div d
                  ELSE -(((-n) + d - 1) \div d)

Norm(n, d) ==
    IF n = 0 THEN <<0, 1>>
    ELSE LET s == IF d < 0 THEN -1 ELSE 1
             g == GCD(Abs(n), Abs(d))
         IN  <<(s * n) \div g, (s * d) \div g>>

R(n, d)   == Norm(n, d)
RInt(n)   == <<n, 1>>
RZero     == <<0, 1>>
ROne      == <<1, 1>>
Num(x)    == x[1]
Den(x)    == x[2]
IsRat(x)  == Den(x) > 0 /\ GCD(Abs(Num(x)), Den(x)) = 1

RAdd(x, y) == Norm(x[1] * y[2] + y[1] * x[2], x[2] * y[2])
RNeg(x)    == <<-x[1], x[2]>>
RSub(x, y) == RAdd(x, RNeg(y))
\* cross-reduce first so that intermediates stay small
RMul(x, y) ==
    LET g1 == GCD(Abs(x[1]), y[2])
        g2 == GCD(Abs(y[1]), x[2])
        a  == IF x[1] = 0 \/ y[1] = 0 THEN 0 ELSE (x[1] \div g1) * (y[1] \div g2)
        b  == IF x[1] = 0 \/ y[1] = 0 THEN 1 ELSE (x[2] \div g2) * (y[2] \div g1)
    IN  IF a = 0 THEN RZero ELSE <<a, b>>
RInv(x)    == IF x[1] > 0 THEN <<x[2], x[1]>> ELSE <<-x[2], -x[1]>>   \* x # 0
RDiv(x, y) == RMul(x, RInv(y))
RAbs(x)    == <<Abs(x[1]), x[2]>>
RSign(x)   == IF x[1] > 0 THEN 1 ELSE IF x[1] < 0 THEN -1 ELSE 0
RLt(x, y)  == x[1] * y[2] < y[1] * x[2]
RLe(x, y)  == x[1] * y[2] <= y[1] * x[2]
REq(x, y)  == x = y                          \* both normalised
RIsInt(x)  == x[2] = 1

RECURSIVE RPowNat(_, _)
RPowNat(x, n) == IF n = 0 THEN ROne ELSE RMul(x, RPowNat(x, n - 1))
RPow(x, n) == IF n >= 0 THEN RPowNat(x, n) ELSE RPowNat(RInv(x), -n)

RECURSIVE IPowNat(_, _)
IPowNat(b, n) == IF n = 0 THEN 1 ELSE b * IPowNat(b, n - 1)
Pow10(n) == IF n >= 0 THEN <<IPowNat(10, n), 1>> ELSE <<1, IPowNat(10, -n)>>

Floor(x) == FloorDiv(x[1], x[2])
Ceil(x)  == -FloorDiv(-x[1], x[2])

Modes == {"ROUND_05UP", "ROUND_CEILING", "ROUND_DOWN", "ROUND_FLOOR",
          "ROUND_HALF_DOWN", "ROUND_HALF_EVEN", "ROUND_HALF_UP", "ROUND_UP"}
HalfModes == {"ROUND_HALF_DOWN", "ROUND_HALF_EVEN", "ROUND_HALF_UP"}

\* the candidate nearer to zero / farther from zero
Toward0(x) == IF x[1] >= 0 THEN Floor(x) ELSE Ceil(x)
Away0(x)   == IF x[1] >= 0 THEN Ceil(x) ELSE Floor(x)

\* twice the distance of x to the candidate nearer to zero, compared with 1:
\* -1 nearer to Toward0, 0 exact tie, 1 nearer to Away0
TieCmp(x) ==
    LET t  == Toward0(x)
        r2 == 2 * Abs(x[1] - t * x[2])      \* 2*|x - t| * d
    IN  IF r2 < x[2] THEN -1 ELSE IF r2 = x[2] THEN 0 ELSE 1

RoundInt(x, mode) ==
    IF RIsInt(x) THEN x[1]
    ELSE CASE mode = "ROUND_FLOOR"     -> Floor(x)
           [] mode = "ROUND_CEILING"   -> Ceil(x)
           [] mode = "ROUND_DOWN"      -> Toward0(x)
           [] mode = "ROUND_UP"        -> Away0(x)
           [] mode = "ROUND_HALF_UP"   -> IF TieCmp(x) >= 0 THEN Away0(x) ELSE Toward0(x)
           [] mode = "ROUND_HALF_DOWN" -> IF TieCmp(x) > 0 THEN Away0(x) ELSE Toward0(x)
           [] mode = "ROUND_HALF_EVEN" ->
                 IF TieCmp(x) > 0 THEN Away0(x)
                 ELSE IF TieCmp(x) < 0 THEN Toward0(x)
                 ELSE IF Toward0(x) % 2 = 0 THEN Toward0(x) ELSE Away0(x)
           [] mode = "ROUND_05UP"      ->
                 IF Abs(Toward0(x)) % 5 = 0 THEN Away0(x) ELSE Toward0(x)

\* nearest multiple of q (q > 0 or q < 0: the multiple is mode-rounded x/q)
RoundTo(x, q, mode) == RMul(RInt(RoundInt(RDiv(x, q), mode)), q)

IsMultiple(x, q) == RIsInt(RDiv(x, q))

(***************************************************************************)
(* Defining inequalities of the modes, used by RatLaws and re-used as the  *)
(* relational statement of C05 ("less than one quantum away, at most half  *)
(* a quantum under the half-modes, never on the wrong side").              *)
(***************************************************************************)
WithinOne(x, r)  == RLt(RAbs(RSub(x, r)), ROne)
WithinHalf(x, r) == RLe(RAbs(RSub(x, r)), <<1, 2>>)
RightSide(x, r, mode) ==
    CASE mode = "ROUND_FLOOR"   -> RLe(r, x)
      [] mode = "ROUND_CEILING" -> RLe(x, r)
      [] mode = "ROUND_DOWN"    -> RLe(RAbs(r), RAbs(x))
      [] mode = "ROUND_UP"      -> RLe(RAbs(x), RAbs(r))
      [] OTHER                  -> TRUE
(***************************************************************************)
(* Range-safe arithmetic.  TLC's integers are 32 bit; a binary operation   *)
(* on operands whose numerator and denominator are below 2^15 cannot       *)
(* overflow (products < 2^30, sum of two products < 2^31).  The S-         *)
(* operators evaluate only then and otherwise return the absorbing marker  *)
(* OOR ("out of the model's range"), which every caller propagates.  A     *)
(* case that leaves the range is therefore reported as skipped, it can     *)
(* never raise a TLC error and never be judged.                            *)
(***************************************************************************)
OOR       == <<0, -1>>
IsOOR(x)  == x[2] = -1
LIM       == 32767
Small(x)  == x[2] > 0 /\ x[2] <= LIM /\ Abs(x[1]) <= LIM
SAdd(x, y) == IF Small(x) /\ Small(y) THEN RAdd(x, y) ELSE OOR
SSub(x, y) == IF Small(x) /\ Small(y) THEN RSub(x, y) ELSE OOR
SMul(x, y) == IF Small(x) /\ Small(y) THEN RMul(x, y) ELSE OOR
SDiv(x, y) == IF Small(x) /\ Small(y) /\ y[1] # 0 THEN RDiv(x, y) ELSE OOR
SNeg(x)    == IF IsOOR(x) THEN OOR ELSE RNeg(x)
SAbs(x)    == IF IsOOR(x) THEN OOR ELSE RAbs(x)
SRoundTo(x, q, mode) ==
    IF Small(x) /\ Small(q) /\ q[1] # 0
    THEN (IF Small(RDiv(x, q)) THEN RoundTo(x, q, mode) ELSE OOR)
    ELSE OOR
\* three-valued comparison: "T", "F" or "O" (out of range)
SCmp(op, x, y) ==
    IF ~(Small(x) /\ Small(y)) THEN "O"
    ELSE LET r == CASE op = "lt" -> RLt(x, y)
                    [] op = "le" -> RLe(x, y)
                    [] op = "gt" -> RLt(y, x)
                    [] op = "ge" -> RLe(y, x)
                    [] op = "eq" -> x = y
                    [] op = "ne" -> x # y
         IN IF r THEN "T" ELSE "F"
RECURSIVE SPowI(_, _)
SPowI(x, n) == IF n = 0 THEN ROne
               ELSE IF n > 0 THEN SMul(x, SPowI(x, n - 1))
               ELSE IF IsOOR(x) \/ x[1] = 0 THEN OOR
               ELSE SMul(RInv(x), SPowI(x, n + 1))
=============================================================================
