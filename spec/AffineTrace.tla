----------------------------- MODULE AffineTrace -----------------------------
(* Observations of table-converted quantity types (predefined Temperature and  *)
(* user tables) judged against Affine.tla.                                      *)
EXTENDS Affine, Json, IOUtils, TLC, TLCExt
Tr == JsonDeserialize(IOEnv.TRACE_FILE)
VARIABLE i
SeqRange(s) == {s[j] : j \in DOMAIN s}
J(b) == IF b THEN "ok" ELSE "bad"
Lim(s) == [j \in DOMAIN s |-> s[j]]
Q(j) == [s |-> j.s, n |-> Lim(j.n), d |-> Lim(j.d)]
Tab(rows) == {<<rows[k].f, rows[k].t, Q(rows[k].fac), Q(rows[k].off)>> : k \in DOMAIN rows}
IsErr(o, cls) == o.st = "err" /\ cls \in SeqRange(o.mro)
\* expected amount of (a in u) expressed in v
\* "user2": a second table converter (rows2) registered after the first on the same type - converters are
\* consulted most-recent-first and the first one that knows the pair answers (C12), the older one otherwise
Exp(ev, a, u, v) == IF ev.table = "temp" THEN TempRef(a, u, v)
                    ELSE IF ev.table = "user2" /\ AffConv(Tab(ev.rows2), a, u, v) # NoQ
                         THEN AffConv(Tab(ev.rows2), a, u, v)
                    ELSE AffConv(Tab(ev.rows), a, u, v)
Cmp(c, x, y) == CASE c = "lt" -> QLess(x, y) [] c = "le" -> QLeq(x, y) [] c = "gt" -> QLess(y, x)
                  [] c = "ge" -> QLeq(y, x) [] c = "eq" -> QEqv(x, y) [] c = "ne" -> ~QEqv(x, y)
Judge(ev) ==
    CASE ev.op = "tconv" ->
            LET e == Exp(ev, Q(ev.a), ev.u, ev.v) IN
            IF e = NoQ THEN J(IsErr(ev.obs, "UnitConversionError"))
            ELSE IF ev.obs.st # "ok" THEN "bad:raised"
            ELSE IF ev.obs.u # ev.v \/ ~ev.obs.sametype THEN "bad:unit-or-type"
            ELSE J(QEqv(Q(ev.obs.a), e))
      [] ev.op = "treplace" ->
            \* the table converter was replaced by another one (rows2) after the pair had been converted once: the
            \* answer is the new table's
            LET e == AffConv(Tab(ev.rows2), Q(ev.a), ev.u, ev.v) IN
            IF e = NoQ THEN J(IsErr(ev.obs, "UnitConversionError"))
            ELSE IF ev.obs.st # "ok" THEN "bad:raised"
            ELSE IF ev.obs.u # ev.v \/ ~ev.obs.sametype THEN "bad:unit-or-type"
            ELSE J(QEqv(Q(ev.obs.a), e))
      [] ev.op = "tcmp" ->
            \* x op y is decided on x.amount and y converted to x's unit
            LET e == Exp(ev, Q(ev.b), ev.v, ev.u) IN
            IF e = NoQ THEN (IF ev.c = "eq" THEN J(ev.obs.st = "bool" /\ ~ev.obs.b)
                             ELSE IF ev.c = "ne" THEN J(ev.obs.st = "bool" /\ ev.obs.b)
                             ELSE J(IsErr(ev.obs, "UnitConversionError")))
            ELSE J(ev.obs.st = "bool" /\ ev.obs.b = Cmp(ev.c, Q(ev.a), e))
      [] ev.op = "tadd" ->
            \* x + y / x - y: in x's unit
            LET e == Exp(ev, Q(ev.b), ev.v, ev.u) IN
            IF e = NoQ THEN J(IsErr(ev.obs, "UnitConversionError"))
            ELSE IF ev.obs.st # "ok" THEN "bad:raised"
            ELSE IF ev.obs.u # ev.u \/ ~ev.obs.sametype THEN "bad:unit-or-type"
            ELSE J(QEqv(Q(ev.obs.a), IF ev.sub THEN QSub(Q(ev.a), e) ELSE QAdd(Q(ev.a), e)))
      [] ev.op = "tdoc" ->
            \* an equivalence stated in the documentation: a u = b v
            J(QEqv(TempRef(Q(ev.a), ev.u, ev.v), Q(ev.b)))
Init == i = 1
Step == /\ i <= Len(Tr) /\ i' = i + 1
        /\ LET ev == Tr[i]  j == Judge(ev) IN IF j = "ok" THEN TRUE ELSE PrintT(<<"QV", j, ev.id, "">>)
TraceSpec == Init /\ [][Step]_i
Post == PrintT(<<"QVDONE", TLCGet("stats").diameter - 1, Len(Tr)>>) /\ TLCGet("stats").diameter = Len(Tr) + 1
=============================================================================
