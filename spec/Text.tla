--------------------------------- MODULE Text ---------------------------------
(***************************************************************************)
(* Construction from numbers and text, and the text form (C18).  Text is a *)
(* sequence of character codes.  A quantity string is: optional blanks, an *)
(* amount literal, at least one blank, a unit symbol, optional blanks.     *)
(* The specification classifies every string three-way:                    *)
(*   "accept"  - the amount literal is a decimal literal                   *)
(*               -?D+(.D+)?([eE][+-]?D+)? or a fraction -?D+/D+ (non-zero  *)
(*               denominator) and the symbol is registered: the value is   *)
(*               exactly the number the literal denotes;                   *)
(*   "reject"  - empty, no blank between amount and symbol, unknown        *)
(*               symbol, an amount containing a character that cannot be   *)
(*               part of a number, a fraction that is not int/int or has a *)
(*               zero denominator: QuantityError is required;              *)
(*   "unspec"  - spellings the property is silent about ("+1", ".5", "5.", *)
(*               "1_0", "1e"): not judged.                                 *)
(* Values are exact signed rationals over big naturals.                    *)
(***************************************************************************)
EXTENDS Big, FiniteSets
SP == 32
Lim0(s) == [j \in DOMAIN s |-> s[j]]
IsDigit(c) == c >= 48 /\ c <= 57
Dig(c) == c - 48
MINUS == 45   PLUS == 43   DOT == 46   SLASH == 47   LE == 101   UE == 69   USCORE == 95
NumChar(c) == IsDigit(c) \/ c \in {MINUS, PLUS, DOT, SLASH, LE, UE, USCORE}

RECURSIVE SkipBlanks(_, _)
SkipBlanks(s, k) == IF k <= Len(s) /\ s[k] = SP THEN SkipBlanks(s, k + 1) ELSE k
RECURSIVE NextBlank(_, _)
NextBlank(s, k) == IF k <= Len(s) /\ s[k] # SP THEN NextBlank(s, k + 1) ELSE k
RECURSIVE RStrip(_)
RStrip(s) == IF s # <<>> /\ s[Len(s)] = SP THEN RStrip(SubSeq(s, 1, Len(s) - 1)) ELSE s
\* split: <<amount part, rest after the first blank following it (leading/trailing blanks removed)>>
AmountPart(s) == LET a == SkipBlanks(s, 1)  b == NextBlank(s, a) IN SubSeq(s, a, b - 1)
SymbolPart(s) == LET a == SkipBlanks(s, 1)  b == NextBlank(s, a)
                 IN  IF b > Len(s) THEN <<>> ELSE RStrip(SubSeq(s, SkipBlanks(s, b), Len(s)))
\* is there a blank right after the amount part? (the library splits at the first single blank; more
\* blanks before the symbol are stripped)
HasSymbol(s) == SymbolPart(s) # <<>>

RECURSIVE DigitsEnd(_, _)
DigitsEnd(s, k) == IF k <= Len(s) /\ IsDigit(s[k]) THEN DigitsEnd(s, k + 1) ELSE k
RECURSIVE NatOf(_, _, _)
NatOf(s, k, e) == IF k >= e THEN <<>> ELSE BAdd(BMulS(NatOf(s, k, e - 1), 10), BFromNat(Dig(s[e - 1])))
RECURSIVE SmallNat(_, _, _)
SmallNat(s, k, e) == IF k >= e THEN 0 ELSE SmallNat(s, k, e - 1) * 10 + Dig(s[e - 1])

(* parse of an amount literal: [cls |-> "accept" | "reject" | "unspec", q |-> value] *)
Res(c, q) == [cls |-> c, q |-> q]
ParseDecimal(s, neg, k0) ==
    \* s[k0..] = D+(.D+)?([eE][+-]?D+)?
    LET i1 == DigitsEnd(s, k0)
        hasfrac == i1 <= Len(s) /\ s[i1] = DOT
        f0 == i1 + 1
        f1 == IF hasfrac THEN DigitsEnd(s, f0) ELSE i1
        hasexp == f1 <= Len(s) /\ s[f1] \in {LE, UE}
        esgn == IF hasexp /\ f1 + 1 <= Len(s) /\ s[f1 + 1] \in {MINUS, PLUS} THEN 1 ELSE 0
        e0 == f1 + 1 + esgn
        e1 == IF hasexp THEN DigitsEnd(s, e0) ELSE f1
        wellformed == /\ i1 > k0 /\ (hasfrac => f1 > f0) /\ (hasexp => (e1 > e0 /\ e1 - e0 <= 3))
                      /\ e1 = Len(s) + 1
        intpart == NatOf(s, k0, i1)
        fracdigits == IF hasfrac THEN f1 - f0 ELSE 0
        mant == BAdd(BMul(intpart, BPow10(fracdigits)), IF hasfrac THEN NatOf(s, f0, f1) ELSE <<>>)
        ex == IF hasexp THEN (IF esgn = 1 /\ s[f1 + 1] = MINUS THEN -SmallNat(s, e0, e1) ELSE SmallNat(s, e0, e1)) ELSE 0
        shift == ex - fracdigits
        num == IF shift >= 0 THEN BMul(mant, BPow10(shift)) ELSE mant
        den == IF shift >= 0 THEN BOne ELSE BPow10(-shift)
    IN  IF wellformed THEN Res("accept", QMk(IF neg THEN -1 ELSE 1, num, den)) ELSE Res("unspec", QZero)
ParseFraction(s, neg, k0) ==
    LET i1 == DigitsEnd(s, k0)
        d0 == i1 + 1
        d1 == DigitsEnd(s, d0)
        wellformed == i1 > k0 /\ i1 <= Len(s) /\ s[i1] = SLASH /\ d1 > d0 /\ d1 = Len(s) + 1
    IN  IF ~wellformed THEN Res("reject", QZero)                        \* a '/' but not int/int
        ELSE IF NatOf(s, d0, d1) = <<>> THEN Res("reject", QZero)        \* zero denominator
        ELSE Res("accept", QMk(IF neg THEN -1 ELSE 1, NatOf(s, k0, i1), NatOf(s, d0, d1)))
ParseAmount(s) ==
    IF s = <<>> THEN Res("reject", QZero)
    ELSE IF \E k \in DOMAIN s : s[k] > 127 THEN Res("unspec", QZero)    \* non-ASCII digits etc.: the property is silent
    ELSE IF \E k \in DOMAIN s : ~NumChar(s[k]) THEN Res("reject", QZero)
    ELSE IF s[1] = PLUS THEN Res("unspec", QZero)                         \* explicit plus sign: the property is silent
    ELSE LET neg == s[1] = MINUS
             k0 == IF neg THEN 2 ELSE 1
         IN  IF \E k \in DOMAIN s : s[k] = SLASH THEN ParseFraction(s, neg, k0)
             ELSE ParseDecimal(s, neg, k0)

(***************************************************************************)
(* Symbols the library GENERATES for reference units of derived types and  *)
(* for units derived from units of the base types (the text form of a unit *)
(* term): factors with positive exponent joined by a middle dot, then "/"  *)
(* and the factors with negative exponent; |exponent| 2..9 as a superscript *)
(* digit; a symbol that itself contains "/" contributes its part after the  *)
(* "/" to the other side; "1" when nothing has a positive exponent.         *)
(* items: sequence of [codes, e].                                           *)
(***************************************************************************)
MIDDOT == 183
Super(n) == CASE n = 2 -> 178 [] n = 3 -> 179 [] n = 4 -> 8308 [] n = 5 -> 8309 [] n = 6 -> 8310
              [] n = 7 -> 8311 [] n = 8 -> 8312 [] n = 9 -> 8313
AbsI(n) == IF n < 0 THEN -n ELSE n
WithExp(codes, e) == IF AbsI(e) <= 1 THEN codes ELSE codes \o <<Super(AbsI(e))>>
RECURSIVE IndexOf(_, _, _)
IndexOf(s, c, k) == IF k > Len(s) THEN 0 ELSE IF s[k] = c THEN k ELSE IndexOf(s, c, k + 1)
NumPart(codes) == IF IndexOf(codes, SLASH, 1) = 0 THEN codes ELSE SubSeq(codes, 1, IndexOf(codes, SLASH, 1) - 1)
DenPart(codes) == IF IndexOf(codes, SLASH, 1) = 0 THEN <<>> ELSE SubSeq(codes, IndexOf(codes, SLASH, 1) + 1, Len(codes))
\* parts (code sequences) on the positive / negative side, in item order
RECURSIVE SideParts(_, _, _)
SideParts(items, k, pos) ==
    IF k > Len(items) THEN <<>>
    ELSE LET it == items[k]
             a == IF (it.e > 0) = pos /\ it.e # 0 THEN <<WithExp(NumPart(Lim0(it.codes)), it.e)>> ELSE <<>>
             b == IF DenPart(Lim0(it.codes)) # <<>> /\ (it.e < 0) = pos /\ it.e # 0
                  THEN <<WithExp(DenPart(Lim0(it.codes)), it.e)>> ELSE <<>>
         IN  a \o b \o SideParts(items, k + 1, pos)
RECURSIVE JoinDot(_, _)
JoinDot(parts, k) == IF k > Len(parts) THEN <<>>
                     ELSE (IF k > 1 THEN <<MIDDOT>> ELSE <<>>) \o parts[k] \o JoinDot(parts, k + 1)
GenSymbol(items) ==
    LET p == SideParts(items, 1, TRUE)  n == SideParts(items, 1, FALSE)
    IN  (IF p = <<>> THEN <<49>> ELSE JoinDot(p, 1)) \o (IF n = <<>> THEN <<>> ELSE <<SLASH>> \o JoinDot(n, 1))
=============================================================================
