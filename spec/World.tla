------------------------------- MODULE World -------------------------------
(***************************************************************************)
(* The fixed user-declared catalogue ("world") over which the value-level  *)
(* specification Calc is interpreted.  It is the single source of truth:   *)
(* the harness exports it with JsonSerialize (cfg/WorldExport.cfg) and      *)
(* declares exactly these types and units, in this order, in a pristine    *)
(* interpreter through the library's public API.  The specification never  *)
(* reads a scale from the library: ScaleOf is computed here from the       *)
(* definitions (product of the numeric factors along the chain of          *)
(* definitions down to the reference unit), as property C01 states it.     *)
(***************************************************************************)
EXTENDS Rat, Sequences, FiniteSets

NoRat == <<0, 0>>          \* typed "none" for rationals
NoName == "NONE"

(* Quantity types.  def: sequence of <<type, exponent>> (empty for base      *)
(* types); ref: symbol of the reference unit or NONE; q: quantum or NoRat;  *)
(* conv: "scale" (units convert by scale), "table" (affine table), "none",  *)
(* "money" (per-unit quantum, no implicit conversion).                      *)
TypeDecls == <<
  [n |-> "A",   def |-> <<>>,                          ref |-> "a",   q |-> NoRat,    conv |-> "scale"],
  [n |-> "B",   def |-> <<>>,                          ref |-> "b",   q |-> NoRat,    conv |-> "scale"],
  [n |-> "D",   def |-> <<>>,                          ref |-> "d",   q |-> <<1, 8>>, conv |-> "scale"],
  [n |-> "E",   def |-> <<>>,                          ref |-> "e",   q |-> <<3, 4>>, conv |-> "scale"],
  [n |-> "AB",  def |-> << <<"A", 1>>, <<"B", 1>> >>,  ref |-> "ab",  q |-> NoRat,    conv |-> "scale"],
  [n |-> "A2",  def |-> << <<"A", 2>> >>,              ref |-> "a2",  q |-> NoRat,    conv |-> "scale"],
  [n |-> "ApB", def |-> << <<"A", 1>>, <<"B", -1>> >>, ref |-> "apb", q |-> NoRat,    conv |-> "scale"],
  [n |-> "DpB", def |-> << <<"D", 1>>, <<"B", -1>> >>, ref |-> "dpb", q |-> NoRat,    conv |-> "scale"],
  [n |-> "Bi",  def |-> << <<"B", -1>> >>,             ref |-> "bi",  q |-> NoRat,    conv |-> "scale"],
  [n |-> "ApBD", def |-> << <<"A", 1>>, <<"B", -1>>, <<"D", -1>> >>, ref |-> "apbd", q |-> NoRat, conv |-> "scale"],
  [n |-> "Pc",  def |-> <<>>,                          ref |-> "%",   q |-> NoRat,    conv |-> "scale"],   \* a symbol that is a format character
  [n |-> "N",   def |-> <<>>,                          ref |-> NoName, q |-> NoRat,   conv |-> "none"],
  [n |-> "T",   def |-> <<>>,                          ref |-> NoName, q |-> NoRat,   conv |-> "table"],
  [n |-> "Money", def |-> <<>>,                        ref |-> NoName, q |-> NoRat,   conv |-> "money"]
>>

(* Units in declaration order.  kind: "ref" | "scaled" (f * of, the factor   *)
(* given to the library as frep: "dec" Decimal, "frac" Fraction, "int") |   *)
(* "derive" (derive_unit_from(args), exponents from the type definition) |  *)
(* "term" (new_unit(define_as=Term(items))) | "plain" | "cur" (currency     *)
(* with minor-unit digits md => quantum 10^-md).                            *)
URec(s, t, kind, f, frep, of, args, items, md) ==
    [s |-> s, t |-> t, kind |-> kind, f |-> f, frep |-> frep, of |-> of,
     args |-> args, items |-> items, md |-> md]
URef(s, t)                == URec(s, t, "ref", <<1, 1>>, "dec", "NONE", <<>>, <<>>, 0)
UPlain(s, t)              == URec(s, t, "plain", <<0, 0>>, "dec", "NONE", <<>>, <<>>, 0)
UScaled(s, t, f, frep, of) == URec(s, t, "scaled", f, frep, of, <<>>, <<>>, 0)
UDerive(s, t, args)       == URec(s, t, "derive", <<0, 0>>, "dec", "NONE", args, <<>>, 0)
UTerm(s, t, items)        == URec(s, t, "term", <<0, 0>>, "dec", "NONE", <<>>, items, 0)
UCur(s, t, md)            == URec(s, t, "cur", <<0, 0>>, "dec", "NONE", <<>>, <<>>, md)
UnitDecls == <<
  URef("a", "A"),
  UScaled("ka", "A", <<10, 1>>, "dec", "a"),
  UScaled("ha", "A", <<1, 2>>, "frac", "ka"),
  UScaled("ta", "A", <<1, 3>>, "frac", "a"),
  UScaled("da", "A", <<12, 1>>, "int", "ta"),
  UScaled("sa", "A", <<1, 7>>, "frac", "ta"),                  \* 1/21 a: a second scale without finite decimal expansion
  UScaled("xa", "A", <<5, 1>>, "dec", "a"),
  UScaled("aa", "A", <<100, 1>>, "int", "a"),
  UScaled("aq", "A", <<1, 10>>, "dec", "ka"),                  \* an alias of the reference unit defined through another unit
  URef("b", "B"),
  UScaled("cb", "B", <<1, 100>>, "dec", "b"),
  UScaled("mb", "B", <<60, 1>>, "int", "b"),
  UTerm("hmb", "A", << <<"ha", 1>>, <<"mb", 1>>, <<"b", -1>> >>),
  URef("d", "D"),
  UScaled("kd", "D", <<10, 1>>, "dec", "d"),
  UScaled("bd", "D", <<1, 8>>, "frac", "d"),
  UTerm("cd", "D", << <<"kd", 1>>, <<"cb", 1>>, <<"b", -1>> >>),  \* 1/10 d: smaller than the quantum (1/8 d) and no multiple of it
  URef("e", "E"),
  UScaled("he", "E", <<3, 2>>, "frac", "e"),
  UScaled("ke", "E", <<6, 1>>, "int", "e"),
  URef("ab", "AB"),
  UDerive("kacb", "AB", <<"ka", "cb">>),
  URef("a2", "A2"),
  UDerive("ka2", "A2", <<"ka">>),
  UTerm("sq", "A2", << <<"ha", 1>>, <<"ka", 1>> >>),
  UScaled("aa2", "A2", <<100, 1>>, "dec", "a2"),
  UTerm("kk", "A2", << <<"ka", 1>>, <<"ka", 1>> >>),           \* the very definition ka2 already has: 100 a2 whatever was declared first
  URef("apb", "ApB"),
  UDerive("kapmb", "ApB", <<"ka", "mb">>),
  URef("dpb", "DpB"),
  UDerive("kdpmb", "DpB", <<"kd", "mb">>),
  URef("bi", "Bi"),
  UScaled("kbi", "Bi", <<1000, 1>>, "dec", "bi"),
  URef("apbd", "ApBD"),
  UDerive("kapmbkd", "ApBD", <<"ka", "mb", "kd">>),
  UTerm("hapcbbd", "ApBD", << <<"ha", 1>>, <<"cb", -1>>, <<"bd", -1>> >>),
  URef("%", "Pc"),
  UScaled("%%", "Pc", <<1, 10>>, "dec", "%"),
  UPlain("p", "N"),
  UPlain("q", "N"),
  UPlain("tc", "T"),
  UPlain("tf", "T"),
  UPlain("tk", "T"),
  UPlain("tx", "T"),                                           \* reached from tc only, factor and offset plain ints
  UCur("Z0", "Money", 0),
  UCur("Z2", "Money", 2),
  UCur("Z3", "Money", 3)
>>

(* The conversion table registered for type T (list form): rows              *)
(* <<from, to, factor, offset>>, here the Celsius/Fahrenheit/Kelvin shape    *)
(* with only three of the six directions tabulated, so that both the        *)
(* forward and the reversed formula are exercised.                          *)
TTable == {
  <<"tc", "tf", <<9, 5>>, <<32, 1>> >>,
  <<"tc", "tk", <<1, 1>>, <<5463, 20>> >>,        \* 273.15
  <<"tk", "tf", <<9, 5>>, <<-45967, 100>> >>,     \* -459.67
  <<"tc", "tx", <<3, 1>>, <<7, 1>> >> }            \* given to the library as the ints 3 and 7; tx -> tc by the exact inverse

----------------------------------------------------------------------------
TypeNames == {TypeDecls[i].n : i \in DOMAIN TypeDecls}
UnitSyms  == {UnitDecls[i].s : i \in DOMAIN UnitDecls}
TypeRec(t) == CHOOSE r \in {TypeDecls[i] : i \in DOMAIN TypeDecls} : r.n = t
UnitRec(u) == CHOOSE r \in {UnitDecls[i] : i \in DOMAIN UnitDecls} : r.s = u
TypeOf(u)  == UnitRec(u).t
UnitsOf(t) == {u \in UnitSyms : TypeOf(u) = t}
RefOf(t)   == TypeRec(t).ref
HasRef(t)  == RefOf(t) # NoName
ConvKind(t) == TypeRec(t).conv
BaseTypes  == {t \in TypeNames : TypeRec(t).def = <<>>}

RECURSIVE RPowI(_, _)
RPowI(x, n) == IF n = 0 THEN ROne
               ELSE IF n > 0 THEN RMul(x, RPowI(x, n - 1))
               ELSE RMul(RInv(x), RPowI(x, n + 1))

(* Scale of a unit: product of the numeric factors along its definitions.   *)
RECURSIVE ScaleOf(_), TermScale(_, _), DeriveScale(_, _, _)
TermScale(items, k) ==
    IF k > Len(items) THEN ROne
    ELSE RMul(RPowI(ScaleOf(items[k][1]), items[k][2]), TermScale(items, k + 1))
DeriveScale(args, def, k) ==
    IF k > Len(args) THEN ROne
    ELSE RMul(RPowI(ScaleOf(args[k]), def[k][2]), DeriveScale(args, def, k + 1))
ScaleOf(u) ==
    LET r == UnitRec(u) IN
    CASE r.kind = "ref"    -> ROne
      [] r.kind = "scaled" -> RMul(r.f, ScaleOf(r.of))
      [] r.kind = "term"   -> TermScale(r.items, 1)
      [] r.kind = "derive" -> DeriveScale(r.args, TypeRec(r.t).def, 1)
      [] OTHER             -> NoRat

(* Dimension of a type over the base types.                                 *)
RECURSIVE DimOf(_), DimSum(_, _, _)
DimSum(def, k, b) == IF k > Len(def) THEN 0
                     ELSE def[k][2] * DimOf(def[k][1])[b] + DimSum(def, k + 1, b)
DimOf(t) == IF TypeRec(t).def = <<>> THEN [b \in BaseTypes |-> IF b = t THEN 1 ELSE 0]
            ELSE [b \in BaseTypes |-> DimSum(TypeRec(t).def, 1, b)]
ZeroDim == [b \in BaseTypes |-> 0]
TypeWithDim(dm) == IF \E t \in TypeNames : DimOf(t) = dm
                   THEN CHOOSE t \in TypeNames : DimOf(t) = dm ELSE NoName

(* Quantum of a unit (amounts in that unit are multiples of it), or NoRat.  *)
RECURSIVE Pow10R(_)
Pow10R(n) == IF n = 0 THEN ROne ELSE RMul(<<1, 10>>, Pow10R(n - 1))
UQuantum(u) ==
    LET r == UnitRec(u) IN
    IF r.kind = "cur" THEN Pow10R(r.md)
    ELSE IF TypeRec(r.t).q = NoRat THEN NoRat
    ELSE RDiv(TypeRec(r.t).q, ScaleOf(u))

(* Table conversion (C14): amount * factor + offset when the pair is        *)
(* tabulated, the exact inverse when only the opposite direction is.        *)
HasRow(tab, u, v) == \E r \in tab : r[1] = u /\ r[2] = v
Row(tab, u, v)    == CHOOSE r \in tab : r[1] = u /\ r[2] = v
TableConv(tab, a, u, v) ==
    IF u = v THEN a
    ELSE IF HasRow(tab, u, v) THEN RAdd(RMul(a, Row(tab, u, v)[3]), Row(tab, u, v)[4])
    ELSE IF HasRow(tab, v, u) THEN RDiv(RSub(a, Row(tab, v, u)[4]), Row(tab, v, u)[3])
    ELSE NoRat

(* Rates of the money converter that some traces activate (base currency Z2): *)
(* <<from, to, rate>>, all exact in six decimals together with their inverses *)
(* and quotients.                                                             *)
MRates == { <<"Z2", "Z3", <<5, 4>> >>, <<"Z2", "Z0", <<5, 2>> >>,
            <<"Z3", "Z2", <<4, 5>> >>, <<"Z0", "Z2", <<2, 5>> >>,
            <<"Z3", "Z0", <<2, 1>> >>, <<"Z0", "Z3", <<1, 2>> >> }
MRate(u, v) == (CHOOSE r \in MRates : r[1] = u /\ r[2] = v)[3]

World == [types |-> TypeDecls, units |-> UnitDecls,
          ttable |-> {[from |-> r[1], to |-> r[2], f |-> r[3], o |-> r[4]] : r \in TTable}]
=============================================================================
