------------------------------ MODULE TermsLaws ------------------------------
(* Model-level laws of Terms.tla, for all terms of length <= L over an item  *)
(* alphabet: the denotations form a commutative group, and a canonical form *)
(* with the stated shape exists, preserves the denotation and is idempotent. *)
EXTENDS Terms, TLC
CONSTANTS Nums, EMax, Els, L, LB
Exps == -EMax..EMax
VARIABLES a, b, c, pc
vars == <<a, b, c, pc>>
NumVal(n) == CASE n = 1 -> <<2, 1>> [] n = 2 -> <<3, 1>> [] n = 3 -> <<1, 2>> [] n = 4 -> <<10, 1>>
               [] n = 5 -> <<-1, 1>> [] n = 6 -> <<3, 2>> [] n = 7 -> <<1, 1>>
Alphabet == {NumItem(NumVal(n), e) : n \in Nums, e \in Exps} \cup {ElItem(n, e) : n \in Els, e \in Exps}
TermsUpTo == UNION {[1..n -> Alphabet] : n \in 0..L}
Init == a = <<>> /\ b = <<>> /\ c = <<>> /\ pc = 0
Next == \/ pc = 0 /\ pc' = 1 /\ a' \in TermsUpTo /\ UNCHANGED <<b, c>>
        \/ pc = 1 /\ pc' = 2 /\ b' \in UNION {[1..n -> Alphabet] : n \in 0..LB} /\ UNCHANGED <<a, c>>
        \/ pc = 2 /\ pc' = 3 /\ c' \in {<<i>> : i \in {j \in Alphabet : j.e = 1}} /\ UNCHANGED <<a, b>>
        \/ pc = 3 /\ UNCHANGED vars
Spec == Init /\ [][Next]_vars
Ok(S) == \A d \in S : ~DIsOOR(d)
Recip(t) == [k \in DOMAIN t |-> [t[k] EXCEPT !.e = -t[k].e]]
GroupLaws ==
    (pc = 3 /\ Ok({D(a), D(b), D(c), D(a \o b), D(b \o c), D(a \o b \o c), D(Recip(a)), D(a \o Recip(a))})) =>
        /\ D(a \o b) = DMul(D(a), D(b))
        /\ D(a \o b) = D(b \o a)
        /\ DMul(DMul(D(a), D(b)), D(c)) = DMul(D(a), DMul(D(b), D(c)))
        /\ (D(a).num # RZero => D(a \o Recip(a)) = DOne)
        /\ DMul(D(a), DOne) = D(a)
CanonLaws ==
    (pc >= 1 /\ ~DIsOOR(D(a))) =>
        /\ CanonShape(Canon(a))
        /\ D(Canon(a)) = D(a)
        /\ Canon(Canon(a)) = Canon(a)
        /\ (pc >= 2 /\ ~DIsOOR(D(b)) /\ D(a) = D(b)) => Canon(a) = Canon(b)
=============================================================================
