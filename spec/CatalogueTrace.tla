--------------------------- MODULE CatalogueTrace ---------------------------
(***************************************************************************)
(* Observations of the real `quantity.predefined` catalogue judged against *)
(* Catalogue.tla (C20, and the predefined halves of C01 / C02).  Values    *)
(* travel as sign + prime-exponent vectors (Scale.tla), so magnitudes like *)
(* 10^-24 or 2^40 are exact.                                               *)
(***************************************************************************)
EXTENDS Catalogue, Json, IOUtils, TLC, TLCExt
Tr == JsonDeserialize(IOEnv.TRACE_FILE)
VARIABLE i
V(j) == FromJson(j)
SeqRange(s) == {s[j] : j \in DOMAIN s}
J(b) == IF b THEN "ok" ELSE "bad"
\* value (in reference units) of an operand [kind, s, a]
OpVal(o) == SMulV(V(o.a), VecOf(o.s))
NonNegExps(v) == \A k \in 1..NP : v.ex[k] >= 0
OnGrid(t, v) == Quantum[t] = <<0, 0>> \/ NonNegExps(SDivV(v, FactRat(Quantum[t])))

BinExpected(ev) ==
    LET tx == TypeOfU(ev.x.s)  ty == TypeOfU(ev.y.s)
        sgn == IF ev.op = "mul" THEN 1 ELSE -1
        dm == DAddT(TypeDims[tx], TypeDims[ty], sgn)
        val == IF ev.op = "mul" THEN SMulV(OpVal(ev.x), OpVal(ev.y)) ELSE SDivV(OpVal(ev.x), OpVal(ev.y))
    IN  IF ev.op = "div" /\ tx = ty
        THEN (IF Linear(tx) THEN [k |-> "n", t |-> "NONE", v |-> val]
              ELSE [k |-> "skip", t |-> "NONE", v |-> SOne])
        ELSE IF ~Linear(tx) \/ ~Linear(ty) THEN [k |-> "e", t |-> "UndefinedResultError", v |-> SOne]
        ELSE IF dm = ZeroD THEN [k |-> "n", t |-> "NONE", v |-> val]
        ELSE IF TypeWithDim(dm) = "NONE" THEN [k |-> "e", t |-> "UndefinedResultError", v |-> SOne]
        ELSE [k |-> "q", t |-> TypeWithDim(dm), v |-> val]
PowExpected(ev) ==
    LET tx == TypeOfU(ev.x.s)
        dm == [k \in 1..5 |-> ev.n * TypeDims[tx][k]]
    IN  IF ev.n = 0 THEN [k |-> "n", t |-> "NONE", v |-> SOne]
        ELSE IF ev.n = 1 THEN [k |-> "q", t |-> tx, v |-> OpVal(ev.x)]
        ELSE IF ~Linear(tx) \/ TypeWithDim(dm) = "NONE" THEN [k |-> "e", t |-> "UndefinedResultError", v |-> SOne]
        ELSE [k |-> "q", t |-> TypeWithDim(dm), v |-> SPowV(OpVal(ev.x), ev.n)]
MatchRes(ex, r) ==
    CASE ex.k = "skip" -> "oor"
      [] ex.k = "e" -> J(r.k = "e" /\ ex.t \in SeqRange(r.mro))
      [] ex.k = "n" -> J(r.k = "n" /\ r.inmodel /\ V(r.a) = ex.v)
      [] ex.k = "q" -> IF ~OnGrid(ex.t, ex.v) THEN "oor"
                       ELSE J(r.k \in {"q", "t"} /\ r.inmodel /\ Known(r.s) /\ r.t = ex.t /\ TypeOfU(r.s) = ex.t
                              /\ SMulV(V(r.a), VecOf(r.s)) = ex.v)

Judge(ev) ==
    CASE ev.op = "unit" ->
            IF ~Known(ev.s) THEN "bad:unknown-unit"
            ELSE IF ev.t # TypeOfU(ev.s) THEN "bad:type"
            ELSE IF ev.isref # (RefSym[ev.t] = ev.s) THEN "bad:refunit"
            ELSE IF ~Linear(ev.t) THEN "ok"
            ELSE IF ~ev.inmodel THEN "bad:scale"
            ELSE J(V(ev.vec) = VecOf(ev.s))
      [] ev.op = "redecl" ->
            IF ~Known(ev.s) THEN "bad:unknown-unit"
            ELSE IF ~ev.rejected THEN "bad:accepted"
            ELSE IF ~ev.same \/ ev.t # TypeOfU(ev.s) THEN "bad:catalogue-changed"
            ELSE IF ~Linear(ev.t) THEN "ok"
            ELSE J(ev.inmodel /\ V(ev.vec) = VecOf(ev.s))
      [] ev.op = "count" -> J(ev.n = NUnits /\ \A k \in DOMAIN ev.syms : Known(ev.syms[k]))
      [] ev.op = "conv" ->
            IF ev.res.k = "e" THEN "bad:raised"
            ELSE IF ~OnGrid(TypeOfU(ev.u), SMulV(V(ev.a), VecOf(ev.u))) THEN "oor"
            ELSE J(ev.res.inmodel /\ ev.res.s = ev.v /\ ev.res.t = TypeOfU(ev.u)
                   /\ V(ev.res.a) = SMulV(V(ev.a), SDivV(VecOf(ev.u), VecOf(ev.v))))
      [] ev.op = "conv0" -> J(ev.res.k = "q" /\ ev.zero /\ ev.res.s = ev.v /\ ev.res.t = TypeOfU(ev.u))
      [] ev.op = "convx" -> J(ev.res.k = "e" /\ "IncompatibleUnitsError" \in SeqRange(ev.res.mro))
      [] ev.op = "prefix" -> J(ev.name \in DOMAIN SIPrefixes /\ ev.inmodel /\ V(ev.vec) = Pow10V(SIPrefixes[ev.name]))
      [] ev.op = "nprefix" -> J(ev.n = Cardinality(DOMAIN SIPrefixes))
      [] ev.op = "doc" -> IF ~Known(ev.s) THEN "bad:unknown-unit"
                          ELSE J(ev.inmodel /\ V(ev.vec) = VecOf(ev.s) /\ ev.ref = RefSym[TypeOfU(ev.s)])
      [] ev.op \in {"mul", "div"} -> MatchRes(BinExpected(ev), ev.res)
      [] ev.op = "pow" -> MatchRes(PowExpected(ev), ev.res)

Init == i = 1
Step == /\ i <= Len(Tr) /\ i' = i + 1
        /\ LET ev == Tr[i]  j == Judge(ev) IN IF j = "ok" THEN TRUE ELSE PrintT(<<"QV", j, ev.id, "">>)
TraceSpec == Init /\ [][Step]_i
Post == PrintT(<<"QVDONE", TLCGet("stats").diameter - 1, Len(Tr)>>) /\ TLCGet("stats").diameter = Len(Tr) + 1
=============================================================================
