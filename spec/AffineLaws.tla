------------------------------ MODULE AffineLaws ------------------------------
(* Model-level laws of Affine.tla on a grid of amounts: for the reference      *)
(* temperature maps and for a consistent partial table (only three of the six  *)
(* directions tabulated, so both the forward and the reversed formula are      *)
(* used): round trips are the identity, going through a third unit equals the  *)
(* direct conversion, the defining fixed points hold, order is preserved.      *)
EXTENDS Affine, TLC
CONSTANT NMax
VARIABLES n, u, v, w
vars == <<n, u, v, w>>
Init == n \in -NMax..NMax /\ u \in TempUnits /\ v \in TempUnits /\ w \in TempUnits
Next == UNCHANGED vars
Spec == Init /\ [][Next]_vars
A == QRat(n, 4)
PartialTab == { <<"degC", "degF", QRat(9, 5), QInt(32)>>, <<"degC", "K", QInt(1), K0>>,
                <<"K", "degF", QRat(9, 5), QRat(-45967, 100)>> }
RefRoundTrip == QEqv(TempRef(TempRef(A, u, v), v, u), A)
RefTriangle  == QEqv(TempRef(TempRef(A, u, v), v, w), TempRef(A, u, w))
RefMonotone  == QLess(A, QAdd(A, QInt(1))) /\ QLess(TempRef(A, u, v), TempRef(QAdd(A, QInt(1)), u, v))
TabAgreesWithRef == QEqv(AffConv(PartialTab, A, u, v), TempRef(A, u, v))
TabRoundTrip == QEqv(AffConv(PartialTab, AffConv(PartialTab, A, u, v), v, u), A)
TabTriangle  == QEqv(AffConv(PartialTab, AffConv(PartialTab, A, u, v), v, w), AffConv(PartialTab, A, u, w))
FixedPoints ==
    /\ QEqv(TempRef(QInt(0), "degC", "K"), QRat(27315, 100)) /\ QEqv(TempRef(QInt(0), "degC", "degF"), QInt(32))
    /\ QEqv(TempRef(QInt(-40), "degC", "degF"), QInt(-40)) /\ QEqv(TempRef(QInt(0), "K", "degF"), QRat(-45967, 100))
    /\ QEqv(TempRef(QInt(100), "degC", "degF"), QInt(212))
=============================================================================
