------------------------------ MODULE ConvStack ------------------------------
(***************************************************************************)
(* Converter registration (C12).                                           *)
(*                                                                         *)
(* Money: a stack of money converters.  Converters are registered /        *)
(* unregistered directly or by entering / leaving with-blocks (also by an  *)
(* exception).  Conversions between currencies use the most recently       *)
(* registered converter still active; only the most recent one can be      *)
(* unregistered (the attempt raises and changes nothing).  Each converter  *)
(* carries a distinct rate, so the result of a probe conversion identifies *)
(* the converter that was used.                                            *)
(*                                                                         *)
(* Other quantity types: a list of converter callables, idempotent         *)
(* registration, consulted most-recent-first, the first one that returns   *)
(* an amount wins, removing restores the previous behaviour.               *)
(***************************************************************************)
EXTENDS Integers, Sequences, TLC
CONSTANTS Convs,      \* money converters, subset of {"c1","c2","c3"}
          Gens,       \* generic converter callables, subset of {"f1","f2","f3","f4"}
          MaxDepth, MaxSteps
VARIABLES stack,      \* Money's converter stack (registration order)
          withs,      \* entered and not yet left with-blocks, innermost last
          gen,        \* converter list of the generic type (registration order, no duplicates)
          probe,      \* observable: rate used by Money(1 B).convert(X), 0 = UnitConversionError
          gprobe,     \* observable: G(2 g1).convert(g2), 0 = UnitConversionError
          xprobe,     \* observable: the cross rate Money(1 X).convert(Y) in hundredths (neither is the base currency)
          gzero,      \* observable: G(1 g1).convert(g2) - the most recent converter answers 0 there; -1 = UnitConversionError
          out,        \* outcome of the last step
          marks,      \* history: length of the stack when each open block was entered
          base,       \* history: the stack when the outermost open block was entered
          disc        \* history: "disciplined" - since the outermost block was entered nothing registered
                      \* before a block was removed inside it, and no leave failed
vars == <<stack, withs, gen, probe, gprobe, xprobe, gzero, out, marks, base, disc>>
hist == <<marks, base, disc>>

\* c4 holds no rate for the probed pair: while it is the most recent one the conversion fails (0), whatever
\* older converters know
RateOf(c) == CASE c = "c1" -> 2 [] c = "c2" -> 4 [] c = "c3" -> 5 [] c = "c4" -> 0
\* generic callables (amount a in g1 -> g2): f1 answers 2a - 2 (zero at a = 1 - an answer like any other),
\* f2 declines everything (returns None), f3 answers 3a, f4 answers 5a.  GenFactor: the answer at a = 2.
GenFactor(f) == CASE f = "f1" -> 2 [] f = "f2" -> 0 [] f = "f3" -> 6 [] f = "f4" -> 10
GenAtOne(f)  == CASE f = "f1" -> 0 [] f = "f2" -> -1 [] f = "f3" -> 3 [] f = "f4" -> 5
\* cross rates Y per X in hundredths: c1 X=2 Y=3, c2 X=4 Y=5, c3 X=5 Y=2, c4 has no X rate
XRateOf(c) == CASE c = "c1" -> 150 [] c = "c2" -> 125 [] c = "c3" -> 40 [] c = "c4" -> 0
XProbeOf(s) == IF s = <<>> THEN 0 ELSE XRateOf(s[Len(s)])
RECURSIVE GZeroOf(_)
GZeroOf(g) == IF g = <<>> THEN -1
              ELSE IF GenAtOne(g[Len(g)]) # -1 THEN GenAtOne(g[Len(g)])
              ELSE GZeroOf(SubSeq(g, 1, Len(g) - 1))
ProbeOf(s) == IF s = <<>> THEN 0 ELSE RateOf(s[Len(s)])
RECURSIVE GProbeOf(_)
GProbeOf(g) == IF g = <<>> THEN 0
               ELSE IF GenFactor(g[Len(g)]) # 0 THEN GenFactor(g[Len(g)])
               ELSE GProbeOf(SubSeq(g, 1, Len(g) - 1))
Out(a, c, ok) == [act |-> a, c |-> c, ok |-> ok]
Pop(s) == SubSeq(s, 1, Len(s) - 1)
Has(s, x) == \E k \in DOMAIN s : s[k] = x
Obs == /\ probe' = ProbeOf(stack') /\ gprobe' = GProbeOf(gen') /\ xprobe' = XProbeOf(stack') /\ gzero' = GZeroOf(gen')

Init == stack = <<>> /\ withs = <<>> /\ gen = <<>> /\ probe = 0 /\ gprobe = 0 /\ xprobe = 0 /\ gzero = -1 /\ out = Out("init", "", TRUE)
        /\ marks = <<>> /\ base = <<>> /\ disc = TRUE

Register(c) == /\ Len(stack) < MaxDepth
               /\ stack' = Append(stack, c) /\ UNCHANGED <<withs, gen>> /\ out' = Out("register", c, TRUE) /\ Obs
               /\ UNCHANGED hist
Unregister(c) ==
    /\ IF stack # <<>> /\ stack[Len(stack)] = c
       THEN stack' = Pop(stack) /\ out' = Out("unregister", c, TRUE)
       ELSE stack' = stack /\ out' = Out("unregister", c, FALSE)          \* raises, nothing changes
    /\ UNCHANGED <<withs, gen, marks, base>> /\ Obs
    \* removing something that was registered before the innermost open block was entered breaks the discipline
    /\ disc' = (disc /\ (marks = <<>> \/ Len(stack') > marks[Len(marks)]))
\* MaxDepth bounds the registrations AND the nesting of blocks (a block whose converter was unregistered inside it
\* stays open): with both bounds the state space is finite, so TLC can also check histories of any length
Enter(c) == /\ Len(stack) < MaxDepth /\ Len(withs) < MaxDepth
            /\ stack' = Append(stack, c) /\ withs' = Append(withs, c)
            /\ UNCHANGED gen /\ out' = Out("enter", c, TRUE) /\ Obs
            /\ marks' = Append(marks, Len(stack))
            /\ base' = IF withs = <<>> THEN stack ELSE base
            /\ disc' = IF withs = <<>> THEN TRUE ELSE disc
\* leaving the innermost block (normally or by an exception) unregisters its converter;
\* if other converters were registered inside and not removed, that raises and the stack is unchanged
Leave(how) ==
    /\ withs # <<>>
    /\ LET c == withs[Len(withs)] IN
       /\ withs' = Pop(withs)
       /\ IF stack # <<>> /\ stack[Len(stack)] = c
          THEN stack' = Pop(stack) /\ out' = Out(how, c, TRUE)
          ELSE stack' = stack /\ out' = Out(how, c, FALSE)
    /\ UNCHANGED <<gen, base>> /\ Obs
    /\ marks' = Pop(marks)
    /\ disc' = (disc /\ out'.ok /\ Len(stack') = marks[Len(marks)])
RegGen(f) == /\ gen' = IF Has(gen, f) THEN gen ELSE Append(gen, f)
             /\ UNCHANGED <<stack, withs>> /\ out' = Out("reggen", f, TRUE) /\ Obs /\ UNCHANGED hist
RemGen(f) == /\ IF Has(gen, f)
                THEN gen' = SelectSeq(gen, LAMBDA x : x # f) /\ out' = Out("remgen", f, TRUE)
                ELSE gen' = gen /\ out' = Out("remgen", f, FALSE)
             /\ UNCHANGED <<stack, withs>> /\ Obs /\ UNCHANGED hist

Next == \/ \E c \in Convs : Register(c) \/ Unregister(c) \/ Enter(c)
        \/ Leave("leave") \/ Leave("leave_exc") \/ Leave("leave_base")   \* normally / by an Exception / by a BaseException (GeneratorExit, KeyboardInterrupt ...)
        \/ \E f \in Gens : RegGen(f) \/ RemGen(f)
\* the initial state has level 1: histories of at most MaxSteps steps
Bound == TLCGet("level") <= MaxSteps + 1
Spec == Init /\ [][Next]_vars

(* ---- properties ------------------------------------------------------- *)
TopWins == probe = ProbeOf(stack) /\ gprobe = GProbeOf(gen) /\ xprobe = XProbeOf(stack) /\ gzero = GZeroOf(gen)
WithsRegistered == Len(withs) <= Len(stack) \/ \E k \in DOMAIN withs : TRUE
RejectedChangesNothing == [][~out'.ok => (stack' = stack /\ gen' = gen)]_vars
\* LIFO: a successful unregister / leave removes exactly the most recent registration
PopOnly == [][(out'.act \in {"unregister", "leave", "leave_exc", "leave_base"} /\ out'.ok)
              => (stack # <<>> /\ stack' = Pop(stack) /\ stack[Len(stack)] = out'.c)]_vars
\* entering and immediately leaving restores the stack (the base case of restoration; longer
\* nestings follow by induction over PopOnly and are explored as behaviours)
\* RESTORATION: once every block has been left - normally or by an exception - and the discipline was kept
\* (whatever was registered directly inside a block was unregistered inside it), the stack, and with it the
\* behaviour of conversions, is what it was before the outermost block was entered
Restoration == (withs = <<>> /\ disc /\ out.act \in {"leave", "leave_exc", "leave_base"}) => (stack = base /\ probe = ProbeOf(base))
\* under the discipline a leave never fails
DisciplinedLeaveSucceeds == [][(out'.act \in {"leave", "leave_exc", "leave_base"} /\ disc /\ Len(stack) = marks[Len(marks)] + 1) => out'.ok]_vars
GenNoDup == \A j, k \in DOMAIN gen : gen[j] = gen[k] => j = k
=============================================================================
