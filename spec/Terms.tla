-------------------------------- MODULE Terms --------------------------------
(***************************************************************************)
(* The term algebra (C07): a term is a sequence of items <<element,        *)
(* exponent>>, an element being a rational number or a named element of a  *)
(* fixed universe of base and derived elements.  A term DENOTES an element *)
(* of the commutative group Q+/- x Z^Base: a rational factor and an        *)
(* exponent for every base element.  Everything the property states is     *)
(* stated on denotations; the canonical form is specified by its shape     *)
(* (at most one numeric item, in front, with exponent 1; then base         *)
(* elements only, each once, non-zero exponent, in one global order), not  *)
(* by an algorithm.                                                        *)
(***************************************************************************)
EXTENDS Rat, Sequences, FiniteSets

(* Universe: base elements x, y (reference units of two base types), p, q  *)
(* (two plain units of one type without reference unit: not convertible,    *)
(* same sort group); derived elements kx = 10 x, hx = 1/2 kx, xy = x/y      *)
(* (reference unit of the derived type X/Y), kxy = kx/y (nested).           *)
Base == {"x", "y", "p", "q"}
Derived == {"kx", "hx", "xy", "kxy"}
ZeroV == [b \in Base |-> 0]
BV(s) == [b \in Base |-> IF b = s THEN 1 ELSE 0]
VAdd(v, w, k) == [b \in Base |-> v[b] + k * w[b]]
DN(n, v) == [num |-> n, vec |-> v]
ElemDen(e) ==
    CASE e \in Base -> DN(ROne, BV(e))
      [] e = "kx"   -> DN(<<10, 1>>, BV("x"))
      [] e = "hx"   -> DN(<<5, 1>>, BV("x"))
      [] e = "xy"   -> DN(ROne, VAdd(BV("x"), BV("y"), -1))
      [] e = "kxy"  -> DN(<<10, 1>>, VAdd(BV("x"), BV("y"), -1))

(* items: [k |-> "num", n |-> "", v |-> rat, e |-> exp] or                    *)
(*        [k |-> "el", n |-> name, v |-> <<1,1>>, e |-> exp]                   *)
NumItem(v, e) == [k |-> "num", n |-> "", v |-> v, e |-> e]
ElItem(n, e)  == [k |-> "el", n |-> n, v |-> ROne, e |-> e]
DOne == DN(ROne, ZeroV)
DOOR == DN(OOR, ZeroV)
DIsOOR(d) == IsOOR(d.num)
DMul(d1, d2) == IF DIsOOR(d1) \/ DIsOOR(d2) THEN DOOR
                ELSE DN(SMul(d1.num, d2.num), VAdd(d1.vec, d2.vec, 1))
DPow(d, n) == IF DIsOOR(d) \/ (n < 0 /\ d.num = RZero) THEN DOOR
              ELSE DN(SPowI(d.num, n), [b \in Base |-> n * d.vec[b]])
DInv(d) == DPow(d, -1)
ItemDen(it) == IF it.k = "num" THEN DPow(DN(it.v, ZeroV), it.e)
               ELSE DPow(ElemDen(it.n), it.e)
RECURSIVE Denote(_, _)
Denote(t, k) == IF k > Len(t) THEN DOne ELSE DMul(ItemDen(t[k]), Denote(t, k + 1))
D(t) == LET d == Denote(t, 1) IN IF ~Small(d.num) THEN DOOR ELSE d

(* canonical shape *)
CanonShape(t) ==
    /\ \A k \in DOMAIN t : t[k].k = "num" => (k = 1 /\ t[k].e = 1 /\ t[k].v # ROne)
    /\ \A k \in DOMAIN t : t[k].k = "el" => (t[k].n \in Base /\ t[k].e # 0)
    /\ \A j, k \in DOMAIN t : (t[j].k = "el" /\ t[k].k = "el" /\ t[j].n = t[k].n) => j = k

(* a canonical form exists for every denotation (constructive witness, used *)
(* at model level only; the implementation may order base elements in any   *)
(* other fixed way)                                                          *)
BaseOrder == <<"x", "y", "p", "q">>
RECURSIVE CanonEls(_, _)
CanonEls(d, k) == IF k > Len(BaseOrder) THEN <<>>
                  ELSE (IF d.vec[BaseOrder[k]] # 0 THEN <<ElItem(BaseOrder[k], d.vec[BaseOrder[k]])>> ELSE <<>>)
                       \o CanonEls(d, k + 1)
Canon(t) == LET d == D(t) IN
            (IF d.num # ROne THEN <<NumItem(d.num, 1)>> ELSE <<>>) \o CanonEls(d, 1)
=============================================================================
