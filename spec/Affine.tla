-------------------------------- MODULE Affine --------------------------------
(***************************************************************************)
(* Table (affine) converters (C14).  A table is a set of rows              *)
(* <<from, to, factor, offset>>: converting amount a from u to v is         *)
(* a * factor + offset when (u, v) is tabulated, the exact inverse          *)
(* (a - offset) / factor when only (v, u) is, a itself when u = v, and      *)
(* otherwise there is no conversion.  Amounts are exact signed rationals    *)
(* over big naturals (Big.tla), so the Kelvin / Fahrenheit offsets and any  *)
(* magnitude are exact.                                                     *)
(*                                                                         *)
(* TempRef: the REFERENCE temperature maps from the defining relations     *)
(* K = degC + 273.15 and degF = 9/5 degC + 32 (all other directions by     *)
(* composition through Celsius) - not the library's six-row table.          *)
(***************************************************************************)
EXTENDS Big, FiniteSets
NoQ == [s |-> 2, n |-> <<>>, d |-> <<>>]            \* "no conversion"
HasRow(tab, u, v) == \E r \in tab : r[1] = u /\ r[2] = v
Row(tab, u, v) == CHOOSE r \in tab : r[1] = u /\ r[2] = v
AffConv(tab, a, u, v) ==
    IF u = v THEN a
    ELSE IF HasRow(tab, u, v) THEN QAdd(QMul(a, Row(tab, u, v)[3]), Row(tab, u, v)[4])
    ELSE IF HasRow(tab, v, u) THEN QDiv(QSub(a, Row(tab, v, u)[4]), Row(tab, v, u)[3])
    ELSE NoQ

K0 == QRat(27315, 100)
ToC(a, u) == CASE u = "degC" -> a
               [] u = "K"    -> QSub(a, K0)
               [] u = "degF" -> QMul(QSub(a, QInt(32)), QRat(5, 9))
FromC(c, v) == CASE v = "degC" -> c
                 [] v = "K"    -> QAdd(c, K0)
                 [] v = "degF" -> QAdd(QMul(c, QRat(9, 5)), QInt(32))
TempRef(a, u, v) == IF u = v THEN a ELSE FromC(ToC(a, u), v)
TempUnits == {"degC", "degF", "K"}

(* a table is consistent when every pair of its rows that are inverse or    *)
(* composable agree - only for such tables round trips and triangles hold   *)
Units(tab) == {r[1] : r \in tab} \cup {r[2] : r \in tab}
=============================================================================
