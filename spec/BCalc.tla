-------------------------------- MODULE BCalc --------------------------------
(***************************************************************************)
(* The value-level semantics of Calc.tla once more, over the PREDEFINED    *)
(* catalogue (Catalogue.tla) and with exact signed rationals over big      *)
(* naturals (Big.tla): no range limit.  Operations are judged on           *)
(* self-contained events (operands written out), so executions recorded    *)
(* from any program - the harness's drivers or the repository's own test   *)
(* suite under the tracer - can be validated.                              *)
(*                                                                         *)
(* Rounding of quantized results (DataVolume, quantum 1/8 B) is stated      *)
(* relationally: the recorded event carries the witness R = amount /       *)
(* quantum; TLC verifies R * quantum = amount and IsRounded(exact /        *)
(* quantum, R).                                                            *)
(***************************************************************************)
EXTENDS Catalogue, Affine
\* (Affine extends Big)
RECURSIVE QProd(_, _)
QProd(fs, k) == IF k > Len(fs) THEN QInt(1) ELSE QMul(QRat(fs[k][1], fs[k][2]), QProd(fs, k + 1))
QScale(s) == QProd(URec(s).f, 1)
QQuantum(t) == IF Quantum[t] = <<0, 0>> THEN NoQ ELSE QRat(Quantum[t][1], Quantum[t][2])
UQuantumQ(s) == IF QQuantum(TypeOfU(s)) = NoQ THEN NoQ ELSE QDiv(QQuantum(TypeOfU(s)), QScale(s))
TempAlias(s) == s        \* Catalogue and Affine use the same aliases degC, degF, K

\* amount of (a in unit u) expressed in unit w of the same type, or NoQ
EquivQ(a, u, w) ==
    IF u = w THEN a
    ELSE IF TypeOfU(u) = "Temperature" THEN TempRef(a, u, w)
    ELSE QDiv(QMul(a, QScale(u)), QScale(w))
RefValQ(a, u) == QMul(a, QScale(u))

(* expected outcome records:                                                 *)
(*   [k |-> "q", t, u, a]   quantity, exact amount a BEFORE rounding to the    *)
(*                          unit's quantum (if any)                            *)
(*   [k |-> "qv", t, a]     quantity of type t, a = exact value in reference   *)
(*                          units before rounding to the type's quantum        *)
(*   [k |-> "n", a]  number    [k |-> "b", b]  boolean   [k |-> "e", x] error  *)
EQ(u, a)  == [k |-> "q", t |-> TypeOfU(u), u |-> u, a |-> a, x |-> "", b |-> FALSE]
EQV(t, a) == [k |-> "qv", t |-> t, u |-> "NONE", a |-> a, x |-> "", b |-> FALSE]
EN(a)     == [k |-> "n", t |-> "NONE", u |-> "NONE", a |-> a, x |-> "", b |-> FALSE]
EB(b)     == [k |-> "b", t |-> "NONE", u |-> "NONE", a |-> QZero, x |-> "", b |-> b]
EE(x)     == [k |-> "e", t |-> "NONE", u |-> "NONE", a |-> QZero, x |-> x, b |-> FALSE]
ESkip     == [k |-> "skip", t |-> "NONE", u |-> "NONE", a |-> QZero, x |-> "", b |-> FALSE]

IsQv(v) == v.k = "q"
IsNv(v) == v.k = "n"
IsUv(v) == v.k = "u"
Amt(v) == IF IsUv(v) THEN QInt(1) ELSE v.a          \* a unit operand counts as amount 1
LinearT(t) == t # "Temperature"

ConvertE(q, w) ==
    IF TypeOfU(w) # q.t THEN EE("IncompatibleUnitsError") ELSE EQ(w, EquivQ(q.a, q.u, w))
AddSubE(sgn, x, y) ==
    IF IsQv(x) /\ IsQv(y)
    THEN IF x.t # y.t THEN EE("IncompatibleUnitsError")
         ELSE EQ(x.u, IF sgn = 1 THEN QAdd(x.a, EquivQ(y.a, y.u, x.u)) ELSE QSub(x.a, EquivQ(y.a, y.u, x.u)))
    ELSE EE("TypeError")
CmpQ(c, a, b) == CASE c = "lt" -> QLess(a, b) [] c = "le" -> QLeq(a, b) [] c = "gt" -> QLess(b, a)
                   [] c = "ge" -> QLeq(b, a) [] c = "eq" -> QEqv(a, b) [] c = "ne" -> ~QEqv(a, b)
CmpE(c, x, y) ==
    IF IsQv(x) /\ IsQv(y) /\ x.t = y.t THEN EB(CmpQ(c, x.a, EquivQ(y.a, y.u, x.u)))
    ELSE IF IsUv(x) /\ IsUv(y) /\ x.t = y.t
         THEN (IF LinearT(x.t) THEN EB(CmpQ(c, QInt(1), EquivQ(QInt(1), y.u, x.u)))      \* units compare by their scale
               ELSE IF c \in {"eq", "ne"} THEN EB((c = "eq") = (x.u = y.u)) ELSE ESkip)
    ELSE IF IsUv(x) /\ IsUv(y) THEN (IF c = "eq" THEN EB(FALSE) ELSE IF c = "ne" THEN EB(TRUE)
                                      ELSE EE("IncompatibleUnitsError"))
    ELSE IF c = "eq" THEN EB(FALSE) ELSE IF c = "ne" THEN EB(TRUE)
    ELSE IF IsQv(x) /\ IsQv(y) THEN EE("IncompatibleUnitsError") ELSE EE("TypeError")
ResolveE(dm, v) ==
    IF dm = ZeroD THEN EN(v)
    ELSE IF TypeWithDim(dm) = "NONE" THEN EE("UndefinedResultError") ELSE EQV(TypeWithDim(dm), v)
MulE(x, y) ==
    IF IsNv(x) /\ IsQv(y) THEN EQ(y.u, QMul(y.a, x.a))
    ELSE IF IsQv(x) /\ IsNv(y) THEN EQ(x.u, QMul(x.a, y.a))
    ELSE IF IsNv(x) /\ IsUv(y) THEN EQ(y.u, x.a)
    ELSE IF IsUv(x) /\ IsNv(y) THEN EQ(x.u, y.a)
    ELSE IF ~LinearT(x.t) \/ ~LinearT(y.t) THEN EE("UndefinedResultError")
    ELSE ResolveE(DAddT(TypeDims[x.t], TypeDims[y.t], 1), QMul(RefValQ(Amt(x), x.u), RefValQ(Amt(y), y.u)))
DivE(x, y) ==
    IF IsQv(x) /\ IsNv(y) THEN (IF y.a.s = 0 THEN EE("ZeroDivisionError") ELSE EQ(x.u, QDiv(x.a, y.a)))
    ELSE IF IsUv(x) /\ IsNv(y) THEN (IF y.a.s = 0 THEN EE("ZeroDivisionError") ELSE EQ(x.u, QInv(y.a)))
    ELSE IF IsNv(x)
         THEN (IF ~LinearT(y.t) THEN EE("UndefinedResultError")
               ELSE IF Amt(y).s = 0 THEN EE("ZeroDivisionError")
               ELSE ResolveE(DAddT(ZeroD, TypeDims[y.t], -1), QDiv(x.a, RefValQ(Amt(y), y.u))))
    ELSE IF x.t = y.t
         THEN (IF ~LinearT(x.t) /\ (IsUv(x) \/ IsUv(y)) THEN ESkip           \* unit operands of table types: unspecified
               ELSE IF EquivQ(Amt(y), y.u, x.u).s = 0 THEN EE("ZeroDivisionError")
               ELSE EN(QDiv(Amt(x), EquivQ(Amt(y), y.u, x.u))))
    ELSE IF ~LinearT(x.t) \/ ~LinearT(y.t) THEN EE("UndefinedResultError")
    ELSE IF Amt(y).s = 0 THEN EE("ZeroDivisionError")
    ELSE ResolveE(DAddT(TypeDims[x.t], TypeDims[y.t], -1), QDiv(RefValQ(Amt(x), x.u), RefValQ(Amt(y), y.u)))
RECURSIVE QPowN(_, _)
QPowN(a, n) == IF n = 0 THEN QInt(1) ELSE QMul(a, QPowN(a, n - 1))
QPow(a, n) == IF n >= 0 THEN QPowN(a, n) ELSE QPowN(QInv(a), -n)
PowE(x, n) ==
    IF n = 0 THEN EN(QInt(1))
    ELSE IF n = 1 THEN EQ(x.u, Amt(x))
    ELSE IF ~LinearT(x.t) THEN EE("UndefinedResultError")
    ELSE IF n < 0 /\ Amt(x).s = 0 THEN EE("ZeroDivisionError")
    ELSE ResolveE([k \in 1..5 |-> n * TypeDims[x.t][k]], QPow(RefValQ(Amt(x), x.u), n))
=============================================================================
