------------------------------- MODULE BigLaws -------------------------------
(* Self-check of Big.tla against Rat.tla on a grid: limb arithmetic agrees     *)
(* with integer arithmetic, and the relational rounding IsRounded holds for    *)
(* exactly the value Rat.RoundInt selects.                                     *)
EXTENDS Big, Rat, TLC
CONSTANTS NMax, DMax
VARIABLES n, d, m, neg
vars == <<n, d, m, neg>>
Init == n \in 0..NMax /\ d \in 1..DMax /\ m \in Modes /\ neg \in BOOLEAN
Next == UNCHANGED vars
Spec == Init /\ [][Next]_vars
Signed == IF neg THEN <<-n, d>> ELSE <<n, d>>
X == Norm(Signed[1], Signed[2])
Expected == Abs(RoundInt(X, m))
Arith == /\ BMul(BFromNat(n * 977), BFromNat(d * 1009)) = BFromNat(n * 977 * d * 1009)
         /\ BAdd(BFromNat(n * 9973), BFromNat(d * 99991)) = BFromNat(n * 9973 + d * 99991)
         /\ BAbsDiff(BFromNat(n * 9973), BFromNat(d * 99991)) = BFromNat(Abs(n * 9973 - d * 99991))
         /\ BCmp(BFromNat(n * 131), BFromNat(d * 1733)) = (IF n * 131 < d * 1733 THEN -1 ELSE IF n * 131 = d * 1733 THEN 0 ELSE 1)
         /\ BMul(BPow10(7), BFromNat(n)) = BFromNat(n * 10000000)
RoundAgrees == IsRounded(BFromNat(n), BFromNat(d), BFromNat(Expected), m, neg /\ n # 0)
RoundUnique == \A r \in 0..((n \div d) + 2) :
                  IsRounded(BFromNat(n), BFromNat(d), BFromNat(r), m, neg /\ n # 0) => r = Expected
=============================================================================
