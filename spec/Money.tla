-------------------------------- MODULE Money --------------------------------
(***************************************************************************)
(* Exchange rates and their application (C09, C10), no-mix rules and the   *)
(* ISO 4217 table (C08).  An exchange rate is held in the form the         *)
(* property describes: unit currency, term currency, unit multiple 10^k    *)
(* and term amount t6 * 10^-6 (t6 a big natural, Big.tla).  All relations  *)
(* are stated multiplicatively on big naturals, so they are exact for any  *)
(* magnitude.                                                              *)
(***************************************************************************)
EXTENDS Big, FiniteSets

Modes == {"ROUND_05UP", "ROUND_CEILING", "ROUND_DOWN", "ROUND_FLOOR",
          "ROUND_HALF_DOWN", "ROUND_HALF_EVEN", "ROUND_HALF_UP", "ROUND_UP"}

(* signed rational over big naturals: [s |-> 1 | -1 | 0, n |-> limbs, d |-> limbs] *)
QPos(q) == q.s = 1 /\ q.n # <<>>
\* q >= 10^-6
QAtLeastMicro(q) == BLe(q.d, BMul(q.n, BPow10(6)))

Rate(uc, tc, k, t6) == [uc |-> uc, tc |-> tc, k |-> k, t6 |-> t6]
RateNum(r) == r.t6
RateDen(r) == BPow10(r.k + 6)

(* C09: the stored pair (10^k, t6 * 10^-6) is a valid representation of    *)
(* the true rate N / D (per one unit of the unit currency)                  *)
NormalForm(r) == r.k >= 0 /\ BLe(BFromNat(100000), r.t6)       \* magnitude of the term amount >= -1
Accurate(N, D, r) == WithinHalfUnit(BMul(N, BPow10(r.k + 6)), D, r.t6)
ValidRateRepr(N, D, r) == NormalForm(r) /\ Accurate(N, D, r)

(* direction and exact value of r1 * r2 and r1 / r2 *)
\* When BOTH currencies are shared the "two remaining currencies" are one and the same: a rate between identical
\* currencies does not exist (C09: identical currencies are rejected), so the operation is rejected like a pair of
\* rates that share no currency at all.
MulCase(r1, r2) ==
    IF r1.uc = r2.tc /\ r1.tc = r2.uc THEN "reject"
    ELSE IF r1.uc = r2.tc THEN "A" ELSE IF r1.tc = r2.uc THEN "B" ELSE "reject"
DivCase(r1, r2) ==
    IF r1.uc = r2.uc /\ r1.tc = r2.tc THEN "reject"
    ELSE IF r1.uc = r2.uc THEN "A" ELSE IF r1.tc = r2.tc THEN "B" ELSE "reject"
MulDir(r1, r2) == IF MulCase(r1, r2) = "A" THEN <<r2.uc, r1.tc>> ELSE <<r1.uc, r2.tc>>
DivDir(r1, r2) == IF DivCase(r1, r2) = "A" THEN <<r2.tc, r1.tc>> ELSE <<r1.uc, r2.uc>>
MulN(r1, r2) == BMul(r1.t6, r2.t6)
MulD(r1, r2) == BMul(RateDen(r1), RateDen(r2))
DivN(r1, r2) == BMul(r1.t6, RateDen(r2))
DivD(r1, r2) == BMul(r2.t6, RateDen(r1))

(* C10: money (amount q in currency cur) times / over a rate; md = decimal  *)
(* digits of the target currency's smallest fraction; R = observed amount   *)
(* in units of that fraction (magnitude), neg its sign                      *)
TimesOK(q, r, md, R, neg, mode) ==
    IsRounded(BMul(BMul(q.n, r.t6), BPow10(md)), BMul(q.d, RateDen(r)), R, mode, neg)
OverOK(q, r, md, R, neg, mode) ==
    IsRounded(BMul(BMul(q.n, RateDen(r)), BPow10(md)), BMul(q.d, r.t6), R, mode, neg)
=============================================================================
