----------------------------- MODULE TermsTrace -----------------------------
(***************************************************************************)
(* Trace validation for C07: events recorded from the real Term class       *)
(* (built over real units of real quantity types) are judged against the    *)
(* denotational specification Terms.tla.  State: the relative order of      *)
(* base elements seen so far in normalised terms ("in a fixed order" means  *)
(* no two normalised terms may order two base elements differently).        *)
(***************************************************************************)
EXTENDS Terms, Json, IOUtils, TLC, TLCExt
Tr == JsonDeserialize(IOEnv.TRACE_FILE)
VARIABLES i, ord
tvars == <<i, ord>>

It(r) == [k |-> r.k, n |-> r.n, v |-> <<r.v[1], r.v[2]>>, e |-> r.e]
Items(s) == [j \in DOMAIN s |-> It(s[j])]
Inexact(s) == \E j \in DOMAIN s : s[j].ty = "float" \/ s[j].v[2] = -3
\* a numeric element beyond 32 bits is sent as the sentinel <<0, -2>>: outside the model range
TooBig(s) == \E j \in DOMAIN s : s[j].v[2] = -2
ElsOf(t) == SelectSeq(t, LAMBDA it : it.k = "el")
InOrder(t) == LET es == ElsOf(t) IN
    {<<es[pr[1]].n, es[pr[2]].n>> : pr \in {q \in (DOMAIN es) \X (DOMAIN es) : q[1] < q[2]}}

DEq(d1, d2) == d1 = d2
J(b) == IF b THEN "ok" ELSE "bad"
Judge(ev) ==
    CASE ev.op = "make" ->
            IF Inexact(ev.res) THEN "bad:inexact"
            ELSE IF DIsOOR(D(Items(ev.t))) \/ DIsOOR(D(Items(ev.res))) THEN "oor"
            ELSE J(D(Items(ev.res)) = D(Items(ev.t)))
      [] ev.op = "norm" ->
            IF Inexact(ev.res) THEN "bad:inexact"
            ELSE IF DIsOOR(D(Items(ev.t))) \/ DIsOOR(D(Items(ev.res))) THEN "oor"
            ELSE IF D(Items(ev.res)) # D(Items(ev.t)) THEN "bad:value"
            ELSE IF ~CanonShape(Items(ev.res)) THEN "bad:shape"
            ELSE IF \E pr \in InOrder(Items(ev.res)) : <<pr[2], pr[1]>> \in ord THEN "bad:order"
            ELSE IF ~ev.idem THEN "bad:idempotent"
            ELSE IF <<ev.numel[1], ev.numel[2]>> # D(Items(ev.t)).num THEN "bad:num_elem"
            ELSE IF ~ev.split THEN "bad:split"
            ELSE "ok"
      [] ev.op \in {"mul", "div"} ->
            LET da == D(Items(ev.a))  db == D(Items(ev.b))
                ex == IF ev.op = "mul" THEN DMul(da, db) ELSE DMul(da, DInv(db))
            IN  IF Inexact(ev.res) THEN "bad:inexact"
                ELSE IF DIsOOR(ex) \/ DIsOOR(D(Items(ev.res))) \/ ~Small(ex.num) THEN "oor"
                ELSE J(D(Items(ev.res)) = ex)
      [] ev.op = "pow" ->
            LET ex == DPow(D(Items(ev.a)), ev.n)
            IN  IF Inexact(ev.res) THEN "bad:inexact"
                ELSE IF DIsOOR(D(Items(ev.a))) \/ DIsOOR(ex) \/ DIsOOR(D(Items(ev.res))) \/ ~Small(ex.num) THEN "oor"
                ELSE J(D(Items(ev.res)) = ex)
      [] ev.op \in {"mulnum", "rdiv", "divnum"} ->
            LET da == D(Items(ev.a))  dk == DN(<<ev.k[1], ev.k[2]>>, ZeroV)
                ex == CASE ev.op = "mulnum" -> DMul(dk, da)
                        [] ev.op = "rdiv"   -> DMul(dk, DInv(da))
                        [] ev.op = "divnum" -> DMul(da, DInv(dk))
            IN  IF Inexact(ev.res) THEN "bad:inexact"
                ELSE IF DIsOOR(da) \/ DIsOOR(ex) \/ DIsOOR(D(Items(ev.res))) \/ ~Small(ex.num) THEN "oor"
                ELSE J(D(Items(ev.res)) = ex)
      [] ev.op = "eq" ->
            LET da == D(Items(ev.a))  db == D(Items(ev.b))
            IN  IF DIsOOR(da) \/ DIsOOR(db) THEN "oor"
                ELSE IF ev.eq # (da = db) THEN "bad:eq"
                ELSE IF ev.eq /\ ~ev.heq THEN "bad:hash"
                ELSE "ok"

\* every result object, when normalised, must give the canonical form of its own value
ResNorm(ev) ==
    IF ev.op \notin {"make", "mul", "div", "pow", "mulnum", "rdiv", "divnum"} THEN "ok"
    ELSE IF Inexact(ev.resn) THEN "bad:inexact"
    ELSE IF DIsOOR(D(Items(ev.res))) \/ DIsOOR(D(Items(ev.resn))) THEN "ok"
    ELSE IF D(Items(ev.resn)) # D(Items(ev.res)) THEN "bad:result-normalisation-value"
    ELSE IF ~CanonShape(Items(ev.resn)) \/ ~ev.resn_flag THEN "bad:result-normalisation-shape"
    ELSE "ok"
Init == i = 1 /\ ord = {}
Step ==
    /\ i <= Len(Tr) /\ i' = i + 1
    /\ LET ev == Tr[i]
           big == /\ ev.op \in {"make", "norm", "mul", "div", "pow", "mulnum", "rdiv", "divnum"}
                  /\ (TooBig(ev.res) \/ (ev.op # "norm" /\ TooBig(ev.resn)))
           j0 == IF big THEN "oor" ELSE Judge(ev)
           j == IF j0 = "ok" THEN ResNorm(ev) ELSE j0 IN
       /\ IF j = "ok" THEN TRUE ELSE PrintT(<<"QV", j, ev.id, "">>)
       /\ ord' = IF ev.op = "norm" /\ j = "ok" THEN ord \cup InOrder(Items(ev.res)) ELSE ord
TraceSpec == Init /\ [][Step]_tvars
Post == PrintT(<<"QVDONE", TLCGet("stats").diameter - 1, Len(Tr)>>) /\ TLCGet("stats").diameter = Len(Tr) + 1
=============================================================================
