----------------------------- MODULE MoneyTrace -----------------------------
(* Trace validation of exchange-rate construction / algebra / application   *)
(* (C09, C10), currency mixing rules and the ISO 4217 table (C08) against   *)
(* Money.tla.                                                                *)
EXTENDS Money, Json, IOUtils, TLC, TLCExt
Tr == JsonDeserialize(IOEnv.TRACE_FILE)
Iso == JsonDeserialize(IOEnv.ISO_FILE)       \* written by the harness's own parser of iso_4217.xml
VARIABLE i
SeqRange(s) == {s[j] : j \in DOMAIN s}
J(b) == IF b THEN "ok" ELSE "bad"
Lim(s) == [j \in DOMAIN s |-> s[j]]
Q(j) == [s |-> j.s, n |-> Lim(j.n), d |-> Lim(j.d)]
R(j) == Rate(j.uc, j.tc, j.k, Lim(j.t6))
IsErr(o, cls) == o.st = "err" /\ cls \in SeqRange(o.mro)
QEq(a, b) == BMul(a.n, b.d) = BMul(b.n, a.d) /\ a.s = b.s
IsoCodes == {Iso[j].code : j \in DOMAIN Iso}
IsoRec(c) == Iso[CHOOSE j \in DOMAIN Iso : Iso[j].code = c]

Judge(ev) ==
    CASE ev.op = "rate_make" ->
            LET amt == Q(ev.amt)
                valid == /\ ev.uc # ev.tc /\ ev.mult.integral /\ ev.mult.ge1
                         /\ ev.amtnum /\ QPos(amt) /\ QAtLeastMicro(amt)
            IN  IF ~valid THEN J(ev.obs.st = "err")
                ELSE IF ev.obs.st # "ok" THEN "bad:rejected"
                ELSE IF ~ev.obs.wf THEN "bad:not-normal-form"
                ELSE LET r == R(ev.obs) IN
                     IF r.uc # ev.uc \/ r.tc # ev.tc THEN "bad:currencies"
                     ELSE IF ~NormalForm(r) THEN "bad:magnitude"
                     ELSE IF ~Accurate(amt.n, BMul(amt.d, Lim(ev.mult.v)), r) THEN "bad:accuracy"
                     ELSE IF ~QEq(Q(ev.obs.rate), [s |-> 1, n |-> r.t6, d |-> RateDen(r)]) THEN "bad:rate-property"
                     ELSE IF BMul(Lim(ev.obs.rate.n), Lim(ev.obs.inv.n)) # BMul(Lim(ev.obs.rate.d), Lim(ev.obs.inv.d))
                          THEN "bad:inverse-property"
                     ELSE "ok"
      [] ev.op = "rate_invert" ->
            LET r == R(ev.r) IN
            IF ~QAtLeastMicro([s |-> 1, n |-> RateDen(r), d |-> r.t6]) THEN "oor"   \* reciprocal below 10^-6
            ELSE IF ev.obs.st # "ok" \/ ~ev.obs.wf THEN "bad:rejected"
            ELSE LET o == R(ev.obs) IN
                 IF o.uc # r.tc \/ o.tc # r.uc THEN "bad:currencies"
                 ELSE J(ValidRateRepr(RateDen(r), r.t6, o))
      [] ev.op = "rate_mul" ->
            LET r1 == R(ev.r1)  r2 == R(ev.r2)  c == MulCase(r1, r2) IN
            IF c = "unspecified" THEN "oor"
            ELSE IF c = "reject" THEN J(IsErr(ev.obs, "ValueError"))
            ELSE IF ~QAtLeastMicro([s |-> 1, n |-> MulN(r1, r2), d |-> MulD(r1, r2)]) THEN "oor"
            ELSE IF ev.obs.st # "ok" \/ ~ev.obs.wf THEN "bad:rejected"
            ELSE LET o == R(ev.obs) IN
                 IF <<o.uc, o.tc>> # MulDir(r1, r2) THEN "bad:direction"
                 ELSE J(ValidRateRepr(MulN(r1, r2), MulD(r1, r2), o))
      [] ev.op = "rate_div" ->
            LET r1 == R(ev.r1)  r2 == R(ev.r2)  c == DivCase(r1, r2) IN
            IF c = "unspecified" THEN "oor"
            ELSE IF c = "reject" THEN J(IsErr(ev.obs, "ValueError"))
            ELSE IF ~QAtLeastMicro([s |-> 1, n |-> DivN(r1, r2), d |-> DivD(r1, r2)]) THEN "oor"
            ELSE IF ev.obs.st # "ok" \/ ~ev.obs.wf THEN "bad:rejected"
            ELSE LET o == R(ev.obs) IN
                 IF <<o.uc, o.tc>> # DivDir(r1, r2) THEN "bad:direction"
                 ELSE J(ValidRateRepr(DivN(r1, r2), DivD(r1, r2), o))
      [] ev.op = "rate_eq" ->
            \* two rates are equal exactly when currencies, direction and rate agree; equal => same hash (C19)
            LET r1 == R(ev.r1)  r2 == R(ev.r2)
                same == r1.uc = r2.uc /\ r1.tc = r2.tc /\ BMul(r1.t6, RateDen(r2)) = BMul(r2.t6, RateDen(r1))
            IN  IF ev.eq # same THEN "bad:eq" ELSE IF ev.eq /\ ~ev.heq THEN "bad:hash" ELSE "ok"
      [] ev.op = "money_rate" ->
            \* kind: "mul" (money * rate, rate * money) | "div" (money / rate)
            LET r == R(ev.r)  q == Q(ev.amt)
                want == IF ev.kind = "mul" THEN r.uc ELSE r.tc
                res  == IF ev.kind = "mul" THEN r.tc ELSE r.uc
            IN  IF ev.cur # want THEN J(IsErr(ev.obs, "ValueError"))
                ELSE IF ev.obs.st # "ok" THEN "bad:rejected"
                ELSE IF ev.obs.cur # res \/ ev.obs.t # "Money" THEN "bad:currency"
                ELSE IF ~ev.obs.ongrid THEN "bad:off-grid"
                ELSE IF res \notin IsoCodes THEN "oor"
                ELSE IF ev.kind = "mul"
                     THEN J(TimesOK(q, r, IsoRec(res).minor, Lim(ev.obs.R), q.s = -1, ev.mode))
                     ELSE J(OverOK(q, r, IsoRec(res).minor, Lim(ev.obs.R), q.s = -1, ev.mode))
      [] ev.op = "mix" ->
            \* two money amounts, no converter active
            IF ev.c1 = ev.c2
            THEN (CASE ev.f \in {"add", "sub"} -> J(ev.obs.st = "ok" /\ ev.obs.cur = ev.c1 /\ ev.obs.t = "Money" /\ ev.obs.ongrid /\ ev.obs.exact)
                   [] ev.f = "div" -> J(ev.obs.st = "num" /\ ev.obs.exact)
                   [] ev.f \in {"convert", "parse"} -> J(ev.obs.st = "ok" /\ ev.obs.cur = ev.c1 /\ ev.obs.exact)
                   [] ev.f = "mul" -> J(IsErr(ev.obs, "UndefinedResultError"))
                   [] OTHER -> J(ev.obs.st = "bool" /\ ev.obs.exact))
            ELSE (CASE ev.f \in {"add", "sub", "div", "lt", "le", "gt", "ge", "convert", "parse"} -> J(IsErr(ev.obs, "UnitConversionError"))
                   [] ev.f = "eq" -> J(ev.obs.st = "bool" /\ ~ev.obs.b)
                   [] ev.f = "ne" -> J(ev.obs.st = "bool" /\ ev.obs.b)
                   [] ev.f = "mul" -> J(IsErr(ev.obs, "UndefinedResultError")))
      [] ev.op = "iso" ->
            IF ev.code \notin IsoCodes THEN J(ev.obs.st = "err" /\ ~ev.obs.registered)
            ELSE LET rec == IsoRec(ev.code) IN
                 IF ev.obs.st # "ok" THEN "bad:rejected"
                 ELSE IF ev.obs.name # rec.name THEN "bad:name"
                 ELSE IF ev.obs.md # rec.minor \/ ~ev.obs.fraction_is_pow10 THEN "bad:smallest-fraction"
                 ELSE IF ~ev.obs.same_object THEN "bad:not-idempotent"
                 ELSE IF ~ev.obs.rounds THEN "bad:rounding"
                 ELSE "ok"
      [] ev.op = "newcur" ->
            \* user-declared currency: parameters valid per the documentation => unit with that smallest fraction;
            \* invalid => rejected, the symbol stays unknown and free (C16)
            LET valid == /\ (ev.minor.given => (ev.minor.int /\ ev.minor.v >= 0))
                         /\ (ev.sf.given => ev.sf.num)
                         /\ ((ev.sf.given /\ ev.sf.num) => (QPos(Q(ev.sf.q)) /\ ev.sf.divides1))
                         /\ ((ev.sf.given /\ ev.minor.given /\ ev.sf.num) => ev.sf.digits = ev.minor.v)
                         /\ ev.symok
                \* a smallest fraction without a finite decimal expansion (1/3, 1/240): the documentation does not say
                \* whether that is a valid parameter - it may be accepted or rejected, but a rejection leaves no trace
                accepted == IF ev.sf.given /\ ev.sf.num /\ ~ev.sf.terminates THEN ev.obs.st = "ok" ELSE valid
            IN  IF valid /\ accepted
                THEN J(ev.obs.st = "ok" /\ ev.obs.registered /\ ev.obs.owner = "Money"
                       /\ QEq(Q(ev.obs.q), IF ev.sf.given THEN Q(ev.sf.q)
                                           ELSE [s |-> 1, n |-> BOne, d |-> BPow10(IF ev.minor.given THEN ev.minor.v ELSE 2)]))
                ELSE J(ev.obs.st = "err" /\ ~ev.obs.registered /\ ~ev.obs.parses /\ ~ev.obs.listed /\ ev.obs.later_ok)
      [] ev.op = "construct" ->
            \* Money(amount, currency with smallest fraction sf): the nearest multiple of sf, rounded once (C05/C08)
            LET a == Q(ev.amt)  sf == Q(ev.sf) IN
            IF ev.obs.st # "ok" THEN "bad:rejected"
            ELSE IF ~ev.obs.ongrid THEN "bad:off-grid"
            ELSE IF ~ev.obs.text_roundtrip THEN "bad:text-form"
            ELSE J(IsRounded(BMul(a.n, sf.d), BMul(a.d, sf.n), Lim(ev.obs.R), ev.mode, a.s = -1)
                   /\ (((a.s = -1) = ev.obs.neg) \/ Lim(ev.obs.R) = <<>>))
      [] ev.op = "price_rate" ->
            \* money-per-mass price times / over a rate (C10).  decl: the declared compound units <<currency, mass unit>>
            LET r == R(ev.r)
                want == IF ev.kind = "mul" THEN r.uc ELSE r.tc
                tcur == IF ev.kind = "mul" THEN r.tc ELSE r.uc
                decl == {<<ev.decl[k].c, ev.decl[k].m>> : k \in DOMAIN ev.decl}
                exact == <<tcur, ev.p.m>> \in decl
                anyvec == \E d \in decl : d[1] = tcur
                MScale(m) == CASE m = "kg" -> QInt(1) [] m = "g" -> QRat(1, 1000) [] m = "t" -> QInt(1000)
                rate == IF ev.kind = "mul" THEN QMk(1, r.t6, RateDen(r)) ELSE QMk(1, RateDen(r), r.t6)
                \* value in (target currency per kg)
                val == QDiv(QMul(Q(ev.p.a), rate), MScale(ev.p.m))
            IN  IF ~ev.p.ismoney THEN J(IsErr(ev.obs, "QuantityError"))
                ELSE IF ev.p.c # want THEN J(IsErr(ev.obs, "QuantityError"))
                ELSE IF ~anyvec THEN J(IsErr(ev.obs, "QuantityError"))
                \* the exact target is not declared but another unit of the dimension is: the property does not say
                \* whether that one is to be found - QuantityError is accepted, and so is a result in a declared
                \* unit of the target currency, which then has to be worth exactly price * rate
                ELSE IF ~exact /\ IsErr(ev.obs, "QuantityError") THEN "ok"
                ELSE IF ev.obs.st # "ok" THEN "bad:rejected"
                ELSE IF ev.obs.c # tcur \/ <<ev.obs.c, ev.obs.m>> \notin decl \/ ~ev.obs.sametype THEN "bad:unit-or-type"
                ELSE J(QEqv(QDiv(Q(ev.obs.a), MScale(ev.obs.m)), val))
      [] ev.op = "price_late" ->
            \* a conversion refused because the target unit is not declared succeeds once it is (C10: "raises when the
            \* target compound unit has not been declared" - and only then)
            J(ev.obs.first_refused /\ ev.obs.st = "ok" /\ ev.obs.unit_ok /\ ev.obs.value_ok)
      [] ev.op = "price_mass" ->
            \* quantity * price: money in the price's own currency, whatever was multiplied before (C08)
            J(ev.obs.st = "ok" /\ ev.obs.t = "Money" /\ ev.obs.cur = ev.want /\ ev.obs.exact)
      [] ev.op = "isocount" -> J(ev.n = Len(Iso) /\ Len(Iso) = 167)

Init == i = 1
Step == /\ i <= Len(Tr) /\ i' = i + 1
        /\ LET ev == Tr[i]  j == Judge(ev) IN IF j = "ok" THEN TRUE ELSE PrintT(<<"QV", j, ev.id, "">>)
TraceSpec == Init /\ [][Step]_i
Post == PrintT(<<"QVDONE", TLCGet("stats").diameter - 1, Len(Tr)>>) /\ TLCGet("stats").diameter = Len(Tr) + 1
=============================================================================
