------------------------------ MODULE UnitsTrace ------------------------------
(***************************************************************************)
(* Trace validation for Units.tla: long random histories of declarations   *)
(* and unit operations executed against the real library are replayed on   *)
(* the specification (deeper than the exhaustively explored state graphs). *)
(* The trace file holds many histories separated by "reset" events.  Each  *)
(* event names the menu item that was executed and the observed outcome:   *)
(* accepted / rejected / result of the operation, and the set of symbols   *)
(* (of the universe) the library knows afterwards.  The specification      *)
(* takes the same step from ITS state and must agree; the first            *)
(* disagreement of a history is printed and the rest of that history is    *)
(* not judged.                                                              *)
(***************************************************************************)
EXTENDS Units, Json, IOUtils, TLCExt
Tr == JsonDeserialize(IOEnv.TRACE_FILE)
VARIABLES l, dead
tvars == <<vars, l, dead>>
SeqRange(s) == {s[j] : j \in DOMAIN s}
SpecSyms(us) == {us[k].sym : k \in DOMAIN us}

\* observed result of an operation: [st, f, u] with u a specification symbol
ObsAgrees(ev, o, us) ==
    IF o.kind # ev.kind THEN FALSE
    ELSE IF ev.kind # "op" THEN TRUE
    ELSE IF o.r.st \in {"undef", "noconv"} THEN ev.res.st = o.r.st
    ELSE IF ev.res.st \notin {"ok", "num"} THEN FALSE
    ELSE IF ev.res.st = "ok" /\ ev.res.u \notin SpecSyms(us) THEN FALSE
    ELSE LET obsr == Res(ev.res.st, <<ev.res.f[1], ev.res.f[2]>>, ev.res.u)
         IN  ValueOf(obsr) = ValueOf(o.r)          \* type + exact value in base units, not the unit chosen
SymsAgree(ev, us) == SpecSyms(us) = SeqRange(ev.syms)

TInit == Init /\ l = 1 /\ dead = FALSE
TNext ==
    /\ l <= Len(Tr) /\ l' = l + 1
    /\ LET ev == Tr[l] IN
       IF ev.id = "reset"
       THEN /\ types' = <<>> /\ units' = <<>> /\ cache' = {} /\ out' = Out("init", "", NoRes) /\ dead' = FALSE
       ELSE IF dead THEN UNCHANGED <<vars, dead>>
       ELSE LET i == ItemOf(ev.id) IN
            IF ~CanTry(i)
            THEN /\ PrintT(<<"QV", "bad:not-attemptable-in-the-specification", ev.eid, "">>)
                 /\ dead' = TRUE /\ UNCHANGED vars
            ELSE /\ Step(i)
                 /\ LET ok == ObsAgrees(ev, out', units') /\ SymsAgree(ev, units') IN
                    /\ dead' = ~ok
                    /\ IF ok THEN TRUE
                       ELSE PrintT(<<"QV", IF ~ObsAgrees(ev, out', units') THEN "bad:outcome" ELSE "bad:symbols", ev.eid,
                                    out'.r>>)
TraceSpec == TInit /\ [][TNext]_tvars
Post == PrintT(<<"QVDONE", TLCGet("stats").diameter - 1, Len(Tr)>>) /\ TLCGet("stats").diameter = Len(Tr) + 1
=============================================================================
