--------------------------------- MODULE Big ---------------------------------
(***************************************************************************)
(* Arbitrary-size natural numbers as little-endian sequences of base-10^4  *)
(* limbs, and signed rationals over them - enough arithmetic (compare,     *)
(* add, subtract, multiply, powers of ten) to state rounding and accuracy  *)
(* relations exactly without leaving TLC's 32-bit integers: every limb     *)
(* product stays below 10^8.  Used where six-decimal exchange rates and    *)
(* money amounts meet (C09, C10), which the 15-bit rationals of Rat.tla    *)
(* cannot hold.  Relations are stated multiplicatively, so no division of  *)
(* big numbers is ever needed.                                             *)
(***************************************************************************)
EXTENDS Integers, Sequences

BASE == 10000
BZero == <<>>
RECURSIVE BStrip(_)
BStrip(a) == IF a # <<>> /\ a[Len(a)] = 0 THEN BStrip(SubSeq(a, 1, Len(a) - 1)) ELSE a
RECURSIVE BFromNat(_)
BFromNat(n) == IF n = 0 THEN <<>> ELSE <<n % BASE>> \o BFromNat(n \div BASE)
Limb(a, i) == IF i <= Len(a) THEN a[i] ELSE 0
Max(x, y) == IF x > y THEN x ELSE y

RECURSIVE BAddC(_, _, _, _)
BAddC(a, b, i, c) ==
    IF i > Max(Len(a), Len(b)) THEN (IF c = 0 THEN <<>> ELSE <<c>>)
    ELSE LET s == Limb(a, i) + Limb(b, i) + c
         IN  <<s % BASE>> \o BAddC(a, b, i + 1, s \div BASE)
BAdd(a, b) == BStrip(BAddC(a, b, 1, 0))

\* comparison: -1, 0, 1 (operands stripped)
RECURSIVE BCmpAt(_, _, _)
BCmpAt(a, b, i) == IF i = 0 THEN 0
                   ELSE IF a[i] < b[i] THEN -1 ELSE IF a[i] > b[i] THEN 1 ELSE BCmpAt(a, b, i - 1)
BCmp(a, b) == IF Len(a) < Len(b) THEN -1 ELSE IF Len(a) > Len(b) THEN 1 ELSE BCmpAt(a, b, Len(a))
BLe(a, b) == BCmp(a, b) <= 0
BLt(a, b) == BCmp(a, b) < 0

\* a - b for a >= b
RECURSIVE BSubC(_, _, _, _)
BSubC(a, b, i, br) ==
    IF i > Len(a) THEN <<>>
    ELSE LET d == a[i] - Limb(b, i) - br
         IN  IF d < 0 THEN <<d + BASE>> \o BSubC(a, b, i + 1, 1)
             ELSE <<d>> \o BSubC(a, b, i + 1, 0)
BSub(a, b) == BStrip(BSubC(a, b, 1, 0))
BAbsDiff(a, b) == IF BLe(b, a) THEN BSub(a, b) ELSE BSub(b, a)

\* multiplication by a small natural k < BASE
RECURSIVE BMulSC(_, _, _, _)
BMulSC(a, k, i, c) ==
    IF i > Len(a) THEN (IF c = 0 THEN <<>> ELSE <<c>>)
    ELSE LET p == a[i] * k + c IN <<p % BASE>> \o BMulSC(a, k, i + 1, p \div BASE)
BMulS(a, k) == IF k = 0 THEN <<>> ELSE BStrip(BMulSC(a, k, 1, 0))
BShift(a, n) == IF a = <<>> THEN <<>> ELSE [i \in 1..(Len(a) + n) |-> IF i <= n THEN 0 ELSE a[i - n]]
RECURSIVE BMulAt(_, _, _)
BMulAt(a, b, j) == IF j > Len(b) THEN <<>>
                   ELSE BAdd(BShift(BMulS(a, b[j]), j - 1), BMulAt(a, b, j + 1))
BMul(a, b) == IF a = <<>> \/ b = <<>> THEN <<>> ELSE BMulAt(a, b, 1)
BTwice(a) == BMulS(a, 2)
RECURSIVE BPow10(_)
BPow10(n) == IF n = 0 THEN <<1>> ELSE IF n >= 4 THEN BShift(BPow10(n - 4), 1) ELSE BMulS(BPow10(n - 1), 10)
BIsEven(a) == a = <<>> \/ a[1] % 2 = 0
BMod5Is0(a) == a = <<>> \/ a[1] % 5 = 0      \* BASE is a multiple of 5
BOne == <<1>>

(***************************************************************************)
(* R = RoundInt(A / B, mode) stated relationally for naturals A, B > 0, R  *)
(* (the magnitude of a signed quotient; `neg` tells the sign, which        *)
(* mirrors the directed modes).                                            *)
(***************************************************************************)
IsRounded(A, B, R, mode, neg) ==
    LET RB   == BMul(R, B)
        R1B  == BMul(BAdd(R, BOne), B)
        low  == BLe(RB, A) /\ BLt(A, R1B)          \* R = floor(A/B)
        exact == RB = A
        upok == ~BLt(A, RB) = FALSE                 \* RB > A  (R above)
        \* R = ceil(A/B) for non-integers: (R-1)B < A < RB
        high == R # <<>> /\ BLt(BMul(BSub(R, BOne), B), A) /\ BLt(A, RB)
        dlow  == BSub(A, RB)                        \* A - RB   when low
        dhigh == BSub(RB, A)                        \* RB - A   when high
        towards0 == low                              \* truncation of the magnitude
        away0    == exact \/ high
        floorM == IF neg THEN away0 ELSE towards0
        ceilM  == IF neg THEN towards0 ELSE away0
    IN  IF exact THEN TRUE
        ELSE CASE mode = "ROUND_DOWN"    -> low
               [] mode = "ROUND_UP"      -> high
               [] mode = "ROUND_FLOOR"   -> (IF neg THEN high ELSE low)
               [] mode = "ROUND_CEILING" -> (IF neg THEN low ELSE high)
               [] mode = "ROUND_HALF_UP"   -> (low /\ BLt(BTwice(dlow), B)) \/ (high /\ BLe(BTwice(dhigh), B))
               [] mode = "ROUND_HALF_DOWN" -> (low /\ BLe(BTwice(dlow), B)) \/ (high /\ BLt(BTwice(dhigh), B))
               [] mode = "ROUND_HALF_EVEN" ->
                     \/ (low /\ BLt(BTwice(dlow), B)) \/ (high /\ BLt(BTwice(dhigh), B))
                     \/ (low /\ BTwice(dlow) = B /\ BIsEven(R))
                     \/ (high /\ BTwice(dhigh) = B /\ BIsEven(R))
               [] mode = "ROUND_05UP" ->
                     \* truncate, unless the truncated value ends in 0 or 5: then away from zero
                     \/ (low /\ ~BMod5Is0(R))
                     \/ (high /\ BMod5Is0(BSub(R, BOne)))
\* |R/10^s - A/B| <= 1/2 * 10^-s  <=>  2 |R*B - A*10^s| <= B*10^s ... stated with a common scale:
\* nearest-within-half: 2 * |R*B - A| <= B
WithinHalfUnit(A, B, R) == BLe(BTwice(BAbsDiff(BMul(R, B), A)), B)

(***************************************************************************)
(* Signed rationals over big naturals: [s |-> -1 | 0 | 1, n |-> limbs,      *)
(* d |-> limbs], d > 0; not normalised - equality and order are decided by  *)
(* cross-multiplication.                                                    *)
(***************************************************************************)
QMk(s, n, d) == [s |-> IF n = <<>> THEN 0 ELSE s, n |-> n, d |-> d]
QZero == QMk(0, <<>>, BOne)
QInt(k) == IF k >= 0 THEN QMk(1, BFromNat(k), BOne) ELSE QMk(-1, BFromNat(-k), BOne)
QRat(k, m) == IF k >= 0 THEN QMk(1, BFromNat(k), BFromNat(m)) ELSE QMk(-1, BFromNat(-k), BFromNat(m))
QNeg(a) == QMk(-a.s, a.n, a.d)
QMul(a, b) == QMk(a.s * b.s, BMul(a.n, b.n), BMul(a.d, b.d))
QInv(a) == QMk(a.s, a.d, a.n)                                   \* a # 0
QDiv(a, b) == QMul(a, QInv(b))
QAdd(a, b) ==
    LET x == BMul(a.n, b.d)  y == BMul(b.n, a.d)  d == BMul(a.d, b.d) IN
    IF a.s = 0 THEN b ELSE IF b.s = 0 THEN a
    ELSE IF a.s = b.s THEN QMk(a.s, BAdd(x, y), d)
    ELSE IF BCmp(x, y) = 0 THEN QMk(0, <<>>, BOne)
    ELSE IF BCmp(x, y) > 0 THEN QMk(a.s, BSub(x, y), d)
    ELSE QMk(b.s, BSub(y, x), d)
QSub(a, b) == QAdd(a, QNeg(b))
QEqv(a, b) == a.s = b.s /\ BMul(a.n, b.d) = BMul(b.n, a.d)
QLess(a, b) == QSub(a, b).s = -1
QLeq(a, b) == QSub(a, b).s <= 0
=============================================================================
