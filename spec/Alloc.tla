-------------------------------- MODULE Alloc --------------------------------
(***************************************************************************)
(* Allocation (C06) as the implementation performs it - portions by         *)
(* constructing self * ratio / total, remainder by exact subtraction,       *)
(* dispersal moving one quantum per step in the order of the rounding       *)
(* errors - as a multi-step machine, so that TLC shows for every input of   *)
(* the configuration that the dispersal loop terminates with remainder 0    *)
(* and that the final state satisfies the relation AllocOK that property    *)
(* C06 states.  The verdict on the implementation uses only AllocOK         *)
(* (CalcTrace), because the property does not fix which portions absorb     *)
(* the rounding error.                                                      *)
(***************************************************************************)
EXTENDS Calc, TLC
CONSTANTS UnitsA,        \* units of the quantities to apportion
          JMax,          \* amounts j/16 quantum steps, j \in -JMax..JMax
          RatioSets      \* indices into RatioLists
RatioLists == <<
  << <<1, 1>> >>,
  << <<1, 1>>, <<1, 1>> >>,
  << <<1, 1>>, <<2, 1>> >>,
  << <<1, 1>>, <<1, 1>>, <<1, 1>> >>,
  << <<3, 1>>, <<5, 1>>, <<7, 1>> >>,
  << <<1, 2>>, <<1, 3>> >>,
  << <<1, 4>>, <<1, 4>>, <<1, 2>> >>,
  << <<1, 1>>, <<2, 1>>, <<3, 1>>, <<5, 1>> >>,
  << <<7, 1>>, <<1, 1>>, <<1, 1>>, <<1, 1>> >>,
  << <<1, 10>>, <<9, 10>> >> >>

VARIABLES self, ratios, disp, mode, pc, ps, rem, order, pos, steps
vars == <<self, ratios, disp, mode, pc, ps, rem, order, pos, steps>>

QuOf(u)  == IF SQuantum(u) = NoRat THEN <<1, 16>> ELSE SQuantum(u)
N == Len(ratios)
RatioVals == [i \in 1..N |-> NumV(ratios[i])]
Sh == Shares(self, RatioVals)

Init == /\ \E u \in UnitsA : \E j \in -JMax..JMax :
              self = Qty(u, IF SQuantum(u) = NoRat THEN RMul(RInt(j), <<1, 16>>)
                            ELSE RMul(RInt(j), SQuantum(u)))
        /\ \E r \in RatioSets : ratios = RatioLists[r]
        /\ disp \in BOOLEAN
        /\ mode \in Modes
        /\ pc = "portions" /\ ps = <<>> /\ rem = RZero /\ order = <<>> /\ pos = 1 /\ steps = 0

\* portions = Construct(self * fraction)
Portions ==
    /\ pc = "portions"
    /\ ps' = [i \in 1..N |-> Construct(self.u, Sh[i], mode).a]
    /\ pc' = "remainder"
    /\ UNCHANGED <<self, ratios, disp, mode, rem, order, pos, steps>>

\* rank of portion i among the rounding errors (error, index), ascending
Err(i) == RSub(ps[i], Sh[i])
Before(i, j) == RLt(Err(i), Err(j)) \/ (Err(i) = Err(j) /\ i < j)
Rank(i) == Cardinality({j \in 1..N : Before(j, i)})
Ascending == [p \in 1..N |-> CHOOSE i \in 1..N : Rank(i) = p - 1]
Descending == [p \in 1..N |-> Ascending[N + 1 - p]]

Remainder ==
    /\ pc = "remainder"
    /\ LET r == RSub(self.a, SSumSeq(ps, 1)) IN
       /\ rem' = r
       /\ IF r = RZero \/ ~disp
          THEN pc' = "done" /\ order' = order
          ELSE pc' = "disperse" /\ order' = (IF RLt(r, RZero) THEN Descending ELSE Ascending)
    /\ UNCHANGED <<self, ratios, disp, mode, ps, pos, steps>>

DisperseStep ==
    /\ pc = "disperse" /\ pos <= N
    /\ LET q == IF RLt(rem, RZero) THEN RNeg(QuOf(self.u)) ELSE QuOf(self.u)
           i == order[pos]
       IN /\ ps' = [ps EXCEPT ![i] = RAdd(ps[i], q)]
          /\ rem' = RSub(rem, q)
          /\ pc' = IF RSub(rem, q) = RZero THEN "done" ELSE "disperse"
    /\ pos' = pos + 1 /\ steps' = steps + 1
    /\ UNCHANGED <<self, ratios, disp, mode, order>>

Done == pc = "done" /\ UNCHANGED vars
Next == Portions \/ Remainder \/ DisperseStep \/ Done
Spec == Init /\ [][Next]_vars /\ WF_vars(Next)

\* the loop never runs out of portions while a remainder is left
NeverStuck == ~(pc = "disperse" /\ pos > N)
\* at most one quantum moved per portion
AtMostN == steps <= N
FinalOK == pc = "done" => AllocOK(self, RatioVals, disp, mode, ps, rem)
Terminates == <>(pc = "done")
=============================================================================
