------------------------------ MODULE TextTrace ------------------------------
(* Observations of Quantity construction from numbers and strings, str() /     *)
(* format() and re-parsing, judged against Text.tla.  Symbols: the harness      *)
(* sends the registered symbols of its world as code sequences with their type  *)
(* and scale (the scale table is Catalogue-independent: a small user world).    *)
EXTENDS Text, Affine, Json, IOUtils, TLC, TLCExt
Tr == JsonDeserialize(IOEnv.TRACE_FILE)
Syms == JsonDeserialize(IOEnv.SYMS_FILE)      \* [codes, name, type, scale {s,n,d} or noscale]
VARIABLE i
SeqRange(s) == {s[j] : j \in DOMAIN s}
J(b) == IF b THEN "ok" ELSE "bad"
Lim(s) == [j \in DOMAIN s |-> s[j]]
Q(j) == [s |-> j.s, n |-> Lim(j.n), d |-> Lim(j.d)]
IsErr(o, cls) == o.st = "err" /\ cls \in SeqRange(o.mro)
Known(codes) == \E k \in DOMAIN Syms : Lim(Syms[k].codes) = codes
SymOf(codes) == Syms[CHOOSE k \in DOMAIN Syms : Lim(Syms[k].codes) = codes]
SymByName(n) == Syms[CHOOSE k \in DOMAIN Syms : Syms[k].name = n]

\* classification of a whole quantity string for factory `cls` ("Quantity" = generic)
\* white space other than the blank (tab, line feed, no-break space ...): the property speaks of "a blank" between
\* amount and symbol and does not say whether other separators are malformed - not judged
OtherSpace == {9, 10, 11, 12, 13, 28, 29, 30, 31, 133, 160, 5760, 8232, 8233, 8239, 8287, 12288} \cup 8192..8202
Classify(s, cls) ==
    LET amt == ParseAmount(AmountPart(s))  sym == SymbolPart(s) IN
    IF \E k \in DOMAIN s : s[k] \in OtherSpace THEN "unspec"
    ELSE IF amt.cls = "reject" THEN "reject"
    ELSE IF ~HasSymbol(s) THEN (IF amt.cls = "accept" /\ cls = "Quantity" THEN "reject" ELSE "unspec")
    ELSE IF ~Known(sym) THEN "reject"
    ELSE IF cls # "Quantity" /\ SymOf(sym).type # cls THEN "reject"
    ELSE amt.cls

Judge(ev) ==
    CASE ev.op = "num" ->
            \* Quantity(number, unit): holds exactly that number's value (non-quantized units)
            IF ev.obs.st # "ok" THEN "bad:rejected"
            ELSE IF ev.obs.inexact THEN "bad:inexact"
            ELSE J(ev.obs.type = SymByName(ev.u).type /\ ev.obs.u = ev.u /\ QEqv(Q(ev.obs.a), Q(ev.a)))
      [] ev.op = "str" ->
            LET s == Lim(ev.codes)  c == Classify(s, ev.cls) IN
            IF c = "unspec" THEN "oor"
            ELSE IF c = "reject" THEN J(IsErr(ev.obs, "QuantityError"))
            ELSE IF ev.obs.st # "ok" THEN "bad:rejected"
            ELSE IF ev.obs.inexact THEN "bad:inexact"
            ELSE LET sym == SymOf(SymbolPart(s)) IN
                 J(ev.obs.type = sym.type /\ ev.obs.u = sym.name
                   /\ QEqv(Q(ev.obs.a), ParseAmount(AmountPart(s)).q))
      [] ev.op = "roundtrip" ->
            \* str(q): amount, ONE blank, symbol; format(q) equals it; parsing it back (generic and typed
            \* factory) gives the identical quantity; the specification's own parse of the text gives q
            LET s == Lim(ev.codes)
                a == SkipBlanks(s, 1)
            IN  IF ev.long THEN J(ev.obs.fmt_eq /\ ev.obs.generic_same /\ ev.obs.typed_same)   \* > 300 characters: not parsed by the specification
                ELSE IF ~ev.obs.fmt_eq THEN "bad:format"
                ELSE IF a # 1 \/ ~HasSymbol(s) \/ ~Known(SymbolPart(s)) THEN "bad:form"
                ELSE IF SymOf(SymbolPart(s)).name # ev.u THEN "bad:symbol"
                ELSE IF NextBlank(s, 1) + 1 > Len(s) \/ s[NextBlank(s, 1) + 1] = SP \/ s[Len(s)] = SP THEN "bad:blanks"
                ELSE IF ParseAmount(AmountPart(s)).cls = "reject" THEN "bad:amount-text"
                ELSE IF ParseAmount(AmountPart(s)).cls = "accept" /\ ~QEqv(ParseAmount(AmountPart(s)).q, Q(ev.a))
                     THEN "bad:text-value"
                ELSE J(ev.obs.generic_same /\ ev.obs.typed_same)
      [] ev.op = "gensym" ->
            \* the symbol generated for a derived reference unit / a unit derived from base-type units
            J(ev.obs.st = "ok" /\ Lim(ev.obs.codes) = GenSymbol(ev.items) /\ ev.obs.registered)
      [] ev.op = "dupsym" ->
            \* a unit symbol already used by another type is rejected, and the old unit still round-trips
            J(ev.obs.rejected /\ ev.obs.roundtrip)
      [] ev.op = "latesym" ->
            \* text naming an undeclared symbol is rejected; once a unit is declared under that symbol the same text
            \* is a quantity in that unit (generic factory, typed factory, and with an explicit other unit)
            J(ev.obs.first_rejected /\ ev.obs.parses /\ ev.obs.typed /\ ev.obs.strunit)
      [] ev.op = "strunit" ->
            \* Quantity("a sym", other unit) = parse, then convert (scalable types)
            LET s == Lim(ev.codes)  c == Classify(s, "Quantity") IN
            IF c # "accept" THEN "oor"
            ELSE LET sym == SymOf(SymbolPart(s))  tgt == SymByName(ev.to) IN
                 IF sym.type # tgt.type THEN J(ev.obs.st = "err")
                 ELSE IF ev.obs.st # "ok" THEN "bad:rejected"
                 ELSE IF sym.type = "Temperature"      \* converted through the table, offsets included
                      THEN J(ev.obs.u = ev.to /\ ev.obs.type = tgt.type
                             /\ QEqv(Q(ev.obs.a), TempRef(ParseAmount(AmountPart(s)).q, sym.name, tgt.name)))
                 ELSE J(ev.obs.u = ev.to /\ ev.obs.type = tgt.type
                        /\ QEqv(Q(ev.obs.a), QDiv(QMul(ParseAmount(AmountPart(s)).q, Q(sym.scale)), Q(tgt.scale))))
Init == i = 1
Step == /\ i <= Len(Tr) /\ i' = i + 1
        /\ LET ev == Tr[i]  j == Judge(ev) IN IF j = "ok" THEN TRUE ELSE PrintT(<<"QV", j, ev.id, "">>)
TraceSpec == Init /\ [][Step]_i
Post == PrintT(<<"QVDONE", TLCGet("stats").diameter - 1, Len(Tr)>>) /\ TLCGet("stats").diameter = Len(Tr) + 1
=============================================================================
