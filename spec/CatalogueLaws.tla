---------------------------- MODULE CatalogueLaws ----------------------------
(* TLC checks the hand-written catalogue table for internal coherence.        *)
EXTENDS Catalogue, TLC
VARIABLE k
Init == k = 0
Next == k < NUnits /\ k' = k + 1
Spec == Init /\ [][Next]_k
TableCoherent == Coherent
\* every ordered pair of units of a type has a conversion factor inside the model
PairFactors == k > 0 =>
    \A j \in 1..NUnits : UnitTable[j].t = UnitTable[k].t =>
        SMulV(SDivV(VecOf(UnitTable[k].s), VecOf(UnitTable[j].s)),
              SDivV(VecOf(UnitTable[j].s), VecOf(UnitTable[k].s))) = SOne
=============================================================================
