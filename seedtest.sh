#!/bin/bash
# usage: seedtest.sh <dir with patch.diff + demo.py> <property id> [more check ids ...]
# Confirms a seeded change in a scratch worktree (suite passes, demo fails with / passes without),
# then runs the named checks against it (VERIF_REPO) and reports which of them raise a VIOLATION.
dir=$1; shift
wt=/tmp/sv-$$
git -C /repo worktree add -q $wt HEAD || exit 2
ev=/tmp/sv-$$-evidence
trap "git -C /repo worktree remove --force $wt >/dev/null 2>&1; git -C /repo worktree prune; rm -rf $ev" EXIT
cp /repo/src/quantity/version.py $wt/src/quantity/version.py 2>/dev/null
cd $wt
PYTHONPATH=$wt/src /venv/bin/python $dir/demo.py >/dev/null 2>&1; base=$?
git apply $dir/patch.diff 2>/dev/null || git apply -3 $dir/patch.diff >/dev/null 2>&1 || { echo "PATCH-DOES-NOT-APPLY"; exit 2; }
grep -rl "^<<<<<<<" src >/dev/null 2>&1 && { echo "PATCH-CONFLICTS"; exit 2; }
PYTHONPATH=$wt/src /venv/bin/python $dir/demo.py >/dev/null 2>&1; mut=$?
suite=$(PYTHONPATH=$wt/src /venv/bin/python -m pytest -q -p no:cacheprovider -x 2>&1 | tail -1)
echo "demo: pristine rc=$base, changed rc=$mut; suite with change: $suite"
for c in "$@"; do
  out=$(cd /verif && VERIF_REPO=$wt VERIF_EVIDENCE=$ev ./check $c 2>&1)
  rc=$?
  nv=$(echo "$out" | grep -c "^VIOLATION")
  echo "check $c: rc=$rc violations=$nv $(echo "$out" | grep -A1 "^VIOLATION" | sed -n 2p | cut -c1-220)"
done
