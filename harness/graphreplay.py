"""Spec -> code conformance: execute EVERY transition of a TLC state graph
(`-dump dot,actionlabels`) against the real library.

The graph is walked along a BFS spanning tree by *forking the interpreter*: at a
node whose library state has been established, each outgoing edge is executed in
a forked child (which inherits the library state copy-on-write); the child
compares the implementation's projected state / outcome with the successor state
TLC computed and, if the edge is the successor's tree edge, continues below it.
So every edge is executed exactly once from exactly the library state the
specification says it starts in, without replaying prefixes.
"""
import json
import os
import re
import sys
import tempfile
import time

import forkpool
import tlaparse


class Graph:
    def __init__(self):
        self.nodes = {}      # id -> state dict
        self.out = {}        # id -> list of (dst, label)
        self.init = []
        self.nedges = 0


_NODE = re.compile(r'^(-?\d+) \[label="((?:[^"\\]|\\.)*)"')
_EDGE = re.compile(r'^(-?\d+) -> (-?\d+) \[label="((?:[^"\\]|\\.)*)"')


def _unescape(s):
    return s.replace('\\n', '\n').replace('\\"', '"').replace('\\\\', '\\')


def load_dot(path, parse_states=True):
    g = Graph()
    seen_edges = set()
    with open(path, encoding='utf8', errors='replace') as f:
        for line in f:
            m = _EDGE.match(line)
            if m:
                s, d, lab = int(m.group(1)), int(m.group(2)), m.group(3)
                key = (s, d, lab)
                if key in seen_edges:
                    continue
                seen_edges.add(key)
                g.out.setdefault(s, []).append((d, _unescape(lab)))
                g.nedges += 1
                continue
            m = _NODE.match(line)
            if m:
                nid = int(m.group(1))
                if nid not in g.nodes:
                    txt = _unescape(m.group(2))
                    g.nodes[nid] = tlaparse.parse_state(txt) if parse_states else txt
                    if 'style = filled' in line[m.end():] or 'style=filled' in line[m.end():]:
                        g.init.append(nid)
    return g


def bfs_tree(g):
    depth = {}
    parent = {}      # node -> (src, edge index) of its tree edge
    order = []
    frontier = list(g.init)
    for n in frontier:
        depth[n] = 0
        parent[n] = None
    while frontier:
        nxt = []
        for n in frontier:
            order.append(n)
            for ei, (d, lab) in enumerate(g.out.get(n, [])):
                if d not in depth:
                    depth[d] = depth[n] + 1
                    parent[d] = (n, ei)
                    nxt.append(d)
        frontier = nxt
    return depth, parent, order


def replay(g, make_adapter, nproc=None, split_min=48, edge_filter=None, max_devs=200, lookahead=0):
    """Execute every edge of g.  Returns dict(edges=, nodes=, deviations=[...], crashes=[...])."""
    depth, parent, order = bfs_tree(g)
    maxd = max(depth.values()) if depth else 0
    # split depth: first depth with at least split_min nodes (or the deepest)
    by_depth = {}
    for n, d in depth.items():
        by_depth.setdefault(d, []).append(n)
    split = maxd
    for d in range(maxd + 1):
        if len(by_depth.get(d, [])) >= split_min:
            split = d
            break
    tasks = [(n, depth[n] == split) for n in order if depth[n] <= split]

    def tree_path(n):
        path = []
        while parent[n] is not None:
            src, ei = parent[n]
            path.append((src, ei))
            n = src
        return path[::-1]

    outdir = tempfile.mkdtemp(prefix='gr-', dir=os.environ.get('VERIF_TMP', '/tmp'))

    def run_task(task):
        node, recurse = task
        logpath = os.path.join(outdir, 'log-%d-%d' % (os.getpid(), abs(node) % 100000))
        log = open(logpath, 'a')

        def emit(rec):
            log.write(json.dumps(rec, default=str) + '\n')
            log.flush()

        adapter = make_adapter()
        # establish the library state of `node` by replaying its tree path
        for (src, ei) in tree_path(node):
            dst, lab = g.out[src][ei]
            devs = adapter.step(g.nodes[src], g.nodes[dst], lab)
            if devs:
                # reported by the task that owns this edge; the subtree is not explored
                return logpath

        def explore(n, rec, path, budget):
            """rec: continue below tree edges; budget: how many more levels to continue below
            NON-tree edges (the implementation may hold state the specification does not have -
            memo tables, caches - so two histories that meet in one specification state are both
            continued for `lookahead` steps)."""
            for ei, (dst, lab) in enumerate(g.out.get(n, [])):
                if edge_filter and not edge_filter(g.nodes[n], g.nodes[dst], lab):
                    continue
                sys.stdout.flush()
                pid = os.fork()
                if pid == 0:
                    code = 0
                    try:
                        devs = adapter.step(g.nodes[n], g.nodes[dst], lab)
                        emit({'e': 1, 'nt': adapter.nontrivial(g.nodes[dst], lab), 'la': budget is not None})
                        if devs:
                            emit({'dev': devs, 'src': n, 'ei': ei, 'dst': dst, 'path': path + [(n, ei)]})
                        elif budget is not None:
                            if budget > 1:
                                explore(dst, False, path + [(n, ei)], budget - 1)
                        elif parent.get(dst) == (n, ei):
                            if rec:
                                explore(dst, True, path + [(n, ei)], None)
                        elif lookahead > 0:
                            # a non-tree edge: continued here whether or not this task recurses
                            explore(dst, False, path + [(n, ei)], lookahead)
                    except BaseException as exc:      # harness failure inside the adapter
                        import traceback
                        emit({'harness': ''.join(traceback.format_exception(
                            type(exc), exc, exc.__traceback__))[-3000:], 'src': n, 'ei': ei})
                        code = 3
                    os._exit(code)
                _, status = os.waitpid(pid, 0)
                if status != 0 and not (os.WIFEXITED(status) and os.WEXITSTATUS(status) == 3):
                    emit({'crash': status, 'src': n, 'ei': ei, 'dst': dst, 'path': path + [(n, ei)]})
        explore(node, recurse, tree_path(node), None)
        log.close()
        return logpath

    t0 = time.time()
    logs = forkpool.forkmap(run_task, tasks, batch=1, nproc=nproc, timeout=3600)
    res = dict(edges=0, nodes=len(g.nodes), deviations=[], crashes=[], harness=[], nontrivial=0,
               tasks=len(tasks), split_depth=split, wall=0.0)
    seen = set()
    for fn in os.listdir(outdir):
        with open(os.path.join(outdir, fn)) as f:
            for line in f:
                try:
                    r = json.loads(line)
                except ValueError:
                    continue
                if 'e' in r:
                    if r.get('la'):
                        res['lookahead_steps'] = res.get('lookahead_steps', 0) + 1
                        continue
                    res['edges'] += 1
                    res['nontrivial'] += 1 if r.get('nt') else 0
                elif 'dev' in r:
                    key = (r['src'], r['ei'], tuple(map(tuple, r.get('path', []))) if len(r.get('path', [])) and r['path'] != [list(x) for x in tree_path(r['src'])] + [[r['src'], r['ei']]] else ())
                    if key not in seen:
                        seen.add(key)
                        res['deviations'].append(r)
                elif 'crash' in r:
                    res['crashes'].append(r)
                elif 'harness' in r:
                    res['harness'].append(r)
        os.unlink(os.path.join(outdir, fn))
    os.rmdir(outdir)
    for t, l in zip(tasks, logs):
        if isinstance(l, dict):
            res['harness'].append({'harness': 'task for node %s failed: %r' % (t[0], l)})
    res['wall'] = time.time() - t0
    res['tree_path'] = tree_path
    return res


def path_labels(g, res, src, ei, path=None):
    """Action labels from the initial state to (and including) edge (src, ei)."""
    if path:
        return [g.out[s][e][1] for (s, e) in path]
    labs = []
    for (s, e) in res['tree_path'](src):
        labs.append(g.out[s][e][1])
    labs.append(g.out[src][ei][1])
    return labs


def path_edges(res, d):
    """(src, edge index) pairs from the initial state to the deviating edge."""
    if d.get('path'):
        return [tuple(x) for x in d['path']]
    return res['tree_path'](d['src']) + [(d['src'], d['ei'])]
