"""Run batches of cases in forked children (isolation + parallelism).

`forkmap(func, items, batch, nproc)` forks one child per batch of items; the
child calls `func(item)` for each item and sends back a JSON-able result list.
A child that dies (signal, os._exit from the C extension aborting, ...) makes
the batch be re-run one item per child; an item whose private child dies too is
reported as `{'_crash': <status>}`.  The caller's process is never mutated by
the cases, so every child starts from the state the caller had when forkmap was
called (pristine library registries).
"""
import json
import os
import pickle
import select
import signal
import sys
import time
import traceback

NPROC = int(os.environ.get('VERIF_NPROC', '16'))


def _child(func, chunk, wfd):
    try:
        out = []
        for it in chunk:
            try:
                out.append(func(it))
            except BaseException as exc:       # harness bug inside func
                out.append({'_harness_exc': ''.join(
                    traceback.format_exception(type(exc), exc, exc.__traceback__))[-2000:]})
        data = pickle.dumps(out, protocol=4)
    except BaseException as exc:               # pragma: no cover
        data = pickle.dumps([{'_harness_exc': repr(exc)}] * len(chunk))
    with os.fdopen(wfd, 'wb') as f:
        f.write(data)
    sys.stdout.flush()
    os._exit(0)


def _run_chunks(func, chunks, nproc, timeout):
    """Return list (per chunk) of result-list or None when the child died."""
    results = [None] * len(chunks)
    pending = list(range(len(chunks)))[::-1]
    running = {}   # rfd -> (idx, pid, buf, t0)
    while pending or running:
        while pending and len(running) < nproc:
            idx = pending.pop()
            rfd, wfd = os.pipe()
            sys.stdout.flush()
            sys.stderr.flush()
            pid = os.fork()
            if pid == 0:
                os.close(rfd)
                for r in list(running):
                    try:
                        os.close(r)
                    except OSError:
                        pass
                _child(func, chunks[idx], wfd)
            os.close(wfd)
            running[rfd] = [idx, pid, bytearray(), time.time()]
        if not running:
            continue
        ready, _, _ = select.select(list(running), [], [], 1.0)
        now = time.time()
        for rfd in list(running):
            idx, pid, buf, t0 = running[rfd]
            if rfd in ready:
                data = os.read(rfd, 1 << 20)
                if data:
                    buf.extend(data)
                    continue
                # EOF
                os.close(rfd)
                _, status = os.waitpid(pid, 0)
                del running[rfd]
                if status == 0 and buf:
                    try:
                        results[idx] = pickle.loads(bytes(buf))
                    except Exception:
                        results[idx] = None
                else:
                    results[idx] = None
            elif timeout and now - t0 > timeout:
                try:
                    os.kill(pid, signal.SIGKILL)
                except OSError:
                    pass
                os.close(rfd)
                os.waitpid(pid, 0)
                del running[rfd]
                results[idx] = None
    return results


def forkmap(func, items, batch=200, nproc=None, timeout=600):
    nproc = nproc or NPROC
    items = list(items)
    chunks = [items[i:i + batch] for i in range(0, len(items), batch)]
    res = _run_chunks(func, chunks, nproc, timeout)
    out = [None] * len(items)
    retry = []
    pos = 0
    for ci, chunk in enumerate(chunks):
        if res[ci] is None or len(res[ci]) != len(chunk):
            retry.extend(range(pos, pos + len(chunk)))
        else:
            out[pos:pos + len(chunk)] = res[ci]
        pos += len(chunk)
    if retry:
        single = _run_chunks(func, [[items[i]] for i in retry], nproc, timeout)
        for i, r in zip(retry, single):
            out[i] = r[0] if r else {'_crash': True}
    return out


def run_stage(func, *args, timeout=None):
    """Run func(*args) in a forked child (a 'stage' that may import and mutate
    the library) and return its picklable result; raises on child failure."""
    rfd, wfd = os.pipe()
    sys.stdout.flush()
    sys.stderr.flush()
    pid = os.fork()
    if pid == 0:
        os.close(rfd)
        try:
            data = pickle.dumps(('ok', func(*args)), protocol=4)
        except BaseException as exc:
            data = pickle.dumps(('exc', ''.join(traceback.format_exception(
                type(exc), exc, exc.__traceback__))))
        with os.fdopen(wfd, 'wb') as f:
            f.write(data)
        sys.stdout.flush()
        os._exit(0)
    os.close(wfd)
    buf = bytearray()
    with os.fdopen(rfd, 'rb') as f:
        while True:
            d = f.read(1 << 20)
            if not d:
                break
            buf.extend(d)
    _, status = os.waitpid(pid, 0)
    if status != 0 or not buf:
        raise RuntimeError('stage child died, status=%r' % status)
    kind, val = pickle.loads(bytes(buf))
    if kind == 'exc':
        raise RuntimeError('stage failed:\n' + val)
    return val
