"""Parser for TLA+ values as printed by TLC (state dumps, dot labels, PrintT).

Mapping: integer -> int, string -> str, TRUE/FALSE -> bool, <<...>> -> tuple,
{...} -> frozenset (elements must be hashable after conversion), record
[a |-> v, ...] -> dict, function (k :> v @@ ...) -> dict, a..b -> tuple range,
bare identifier (model value) -> str prefixed with '@'.
"""


class ParseError(Exception):
    pass


class _P:
    def __init__(self, s):
        self.s = s
        self.i = 0
        self.n = len(s)

    def ws(self):
        s, n = self.s, self.n
        while self.i < n and s[self.i] in ' \t\r\n':
            self.i += 1

    def peek(self, k=1):
        return self.s[self.i:self.i + k]

    def expect(self, tok):
        self.ws()
        if not self.s.startswith(tok, self.i):
            raise ParseError('expected %r at %d: %r' % (tok, self.i, self.s[self.i:self.i + 40]))
        self.i += len(tok)

    def value(self):
        self.ws()
        s = self.s
        c = self.peek()
        if c == '':
            raise ParseError('eof')
        if s.startswith('<<', self.i):
            self.i += 2
            items = self.seq('>>')
            return tuple(items)
        if c == '{':
            self.i += 1
            items = self.seq('}')
            return frozenset(_freeze(x) for x in items)
        if c == '[':
            self.i += 1
            return self.record()
        if c == '(':
            self.i += 1
            return self.func()
        if c == '"':
            return self.string()
        if c == '-' or c.isdigit():
            j = self.i + 1
            while j < self.n and s[j].isdigit():
                j += 1
            v = int(s[self.i:j])
            self.i = j
            self.ws()
            if s.startswith('..', self.i):
                self.i += 2
                hi = self.value()
                return tuple(range(v, hi + 1))
            return v
        if c.isalpha() or c == '_':
            j = self.i
            while j < self.n and (s[j].isalnum() or s[j] == '_'):
                j += 1
            w = s[self.i:j]
            self.i = j
            if w == 'TRUE':
                return True
            if w == 'FALSE':
                return False
            return '@' + w
        raise ParseError('unexpected %r at %d' % (c, self.i))

    def seq(self, close):
        items = []
        self.ws()
        if self.s.startswith(close, self.i):
            self.i += len(close)
            return items
        while True:
            items.append(self.value())
            self.ws()
            if self.s.startswith(close, self.i):
                self.i += len(close)
                return items
            self.expect(',')

    def string(self):
        s = self.s
        assert s[self.i] == '"'
        j = self.i + 1
        out = []
        while j < self.n:
            ch = s[j]
            if ch == '\\':
                nx = s[j + 1]
                out.append({'n': '\n', 't': '\t', '"': '"', '\\': '\\'}.get(nx, nx))
                j += 2
                continue
            if ch == '"':
                self.i = j + 1
                return ''.join(out)
            out.append(ch)
            j += 1
        raise ParseError('unterminated string')

    def record(self):
        d = {}
        self.ws()
        if self.peek() == ']':
            self.i += 1
            return d
        while True:
            self.ws()
            j = self.i
            while j < self.n and (self.s[j].isalnum() or self.s[j] == '_'):
                j += 1
            key = self.s[self.i:j]
            if not key:
                raise ParseError('record key at %d' % self.i)
            self.i = j
            self.expect('|->')
            d[key] = self.value()
            self.ws()
            if self.peek() == ']':
                self.i += 1
                return d
            self.expect(',')

    def func(self):
        d = {}
        while True:
            k = self.value()
            self.expect(':>')
            v = self.value()
            d[_freeze(k)] = v
            self.ws()
            if self.peek() == ')':
                self.i += 1
                return d
            self.expect('@@')


def _freeze(x):
    if isinstance(x, dict):
        return tuple(sorted((k, _freeze(v)) for k, v in x.items()))
    if isinstance(x, (list, tuple)):
        return tuple(_freeze(v) for v in x)
    return x


def parse(text):
    p = _P(text)
    v = p.value()
    p.ws()
    if p.i != p.n:
        raise ParseError('trailing text at %d: %r' % (p.i, text[p.i:p.i + 40]))
    return v


def parse_state(text):
    """Parse a TLC state '/\\ v1 = val /\\ v2 = val ...' into a dict."""
    p = _P(text)
    d = {}
    while True:
        p.ws()
        if p.i >= p.n:
            return d
        if p.s.startswith('/\\', p.i):
            p.i += 2
        p.ws()
        j = p.i
        while j < p.n and (p.s[j].isalnum() or p.s[j] == '_'):
            j += 1
        name = p.s[p.i:j]
        if not name:
            raise ParseError('state var at %d: %r' % (p.i, p.s[p.i:p.i + 30]))
        p.i = j
        p.expect('=')
        d[name] = p.value()


def to_tla(v):
    """Python value -> TLA+ literal (inverse of parse for what we emit)."""
    if isinstance(v, bool):
        return 'TRUE' if v else 'FALSE'
    if isinstance(v, int):
        return str(v)
    if isinstance(v, str):
        if v.startswith('@'):
            return v[1:]
        return '"' + v.replace('\\', '\\\\').replace('"', '\\"') + '"'
    if isinstance(v, (tuple, list)):
        return '<<' + ', '.join(to_tla(x) for x in v) + '>>'
    if isinstance(v, (set, frozenset)):
        return '{' + ', '.join(sorted(to_tla(x) for x in v)) + '}'
    if isinstance(v, dict):
        if all(isinstance(k, str) and k.isidentifier() for k in v):
            return '[' + ', '.join('%s |-> %s' % (k, to_tla(x)) for k, x in v.items()) + ']'
        return '(' + ' @@ '.join('%s :> %s' % (to_tla(k), to_tla(x)) for k, x in v.items()) + ')'
    raise TypeError(type(v))
