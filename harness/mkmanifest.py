"""Regenerate /verif/MANIFEST.json from the table below (developer tool)."""
import json
import os

VERIF = os.path.dirname(os.path.dirname(os.path.abspath(__file__)))
BASE = "cd /repo && /venv/bin/python -m pytest -ra -q -p no:cacheprovider --timeout=900 --continue-on-collection-errors"

CHECKS = {
    'C01': ('Calc.tla/World.tla: Convert = amount * ScaleOf(u)/ScaleOf(v), ScaleOf derived by the spec from the declared '
            'definition chains; laws (value preserved, round trip, triangle) model-checked by TLC over all register '
            'contents (CalcLaws[conv]); every conversion of the real library on all ordered unit pairs/triples x amount '
            'grid x {Decimal, Fraction} recorded and validated by TLC against the spec (CalcTrace).',
            'TLC model checking of conversion laws + trace validation of recorded conversions against Calc.tla', '7 C01'),
    'C03': ('Calc.tla: Add/Sub/Cmp/Sum with error classes; group laws model-checked (CalcLaws[add]); all ordered type '
            'pairs x operators, all numeric kinds in both operand orders, random same-type triples validated by TLC.',
            'TLC model checking of group laws + trace validation against Calc.tla', '7 C03'),
    'C04': ('Calc.tla: the six operators = operators on exact reference values; order laws (total, transitive, '
            'trichotomy, eq <=> same abstract key) model-checked (CalcLaws[ord]); all unit pairs x amounts equal across '
            'units / beside ties x representations, sorted() and unit comparisons validated by TLC.',
            'TLC model checking of order laws + trace validation against Calc.tla', '7 C04'),
    'C05': ('Calc.tla: Construct = exact result on stored operands rounded once by Rat.RoundTo (declarative rounding '
            'modes, RatLaws); GridInv/RoundedOnce model-checked (CalcLaws[round]); every producing operation x 8 modes '
            'x sixteenth-of-quantum amounts and random behaviours with SetMode validated by TLC.',
            'TLC model checking of grid invariant + trace validation against Calc.tla', '7 C05'),
    'C06': ('Alloc.tla: multi-step allocation machine, TLC proves (bounded) termination of dispersal and the relation '
            'AllocOK; each observed (portions, remainder) of the real allocate() is judged by TLC against AllocOK.',
            'TLC model checking of Alloc.tla + relational trace validation (AllocOK)', '7 C06'),
    'C13': ('Rat.tla declarative rounding modes (RatLaws model-checked); Calc.Quantize / RoundJudge; quantize under all '
            'explicit and default modes on tie grids in both representations, round(q,n), rejections validated by TLC.',
            'TLC model checking of rounding-mode laws + trace validation against Calc.tla', '7 C13'),
    'C19': ('Calc.tla abstract identity (type, exact reference value) = equality (CalcLaws[ord]); pairs equal across '
            'units / representations and all unit pairs recorded with ==, hash and set size and judged by TLC.',
            'TLC model checking (eq <=> abstract key) + trace validation of eq/hash observations', '7 C19'),
}
CHECKS.update({
    'C02': ('Calc.tla Mul/Div/Pow/number operators: result = type with the combined dimension + exact value in reference '
            'units, plain number on cancellation, UndefinedResultError iff no declared type; Units.tla decides which results '
            'exist as declarations come and go (every transition of the TLC state graph executed); all 35x35 unit pairs x '
            'operand kinds x {*,/}, powers, numbers, random chains validated by TLC.',
            'TLC model checking of Units.tla + execution of every graph transition + trace validation against Calc.tla', '7 C02'),
    'C07': ('Terms.tla: terms denote elements of Q x Z^Base; group laws and canonical form model-checked (TermsLaws); '
            'Term(), normalized(), ==, hash, *, /, **, reciprocal, number ops of the real Term class over real units '
            'recorded and judged on denotations / canonical shape / global order by TLC (TermsTrace).',
            'TLC model checking of the denotational term algebra + trace validation of the real Term class', '7 C07'),
    'C15': ('Units.tla: declaration/directory state machine with menus of valid and invalid declarations; invariants '
            'SymUnique, DimUnique, OwnType, VecType, RefUnitOfDerived model-checked; EVERY transition of the TLC state '
            'graph is executed against a pristine library state (fork tree) and the projected directories compared.',
            'TLC model checking of Units.tla + execution of every state-graph transition in the real library', '7 C15'),
    'C16': ('Units.tla action property RejectedLeavesNoTrace; menus biased to invalid declarations at every position; '
            'every transition executed, after a rejected step the projection must equal the unchanged spec state.',
            'TLC model checking (action property) + execution of every state-graph transition in the real library', '7 C16'),
    'C17': ('Units.tla memo model: CacheCoherent (memo never disagrees with the history-free Fresh) and '
            'DefinedIffDeclared model-checked; all interleavings of declarations and unit operations executed, each '
            'result compared with Fresh(current declarations).',
            'TLC model checking of the memo invariant + execution of every state-graph transition in the real library', '7 C17'),
    'C20': ('Catalogue.tla: hand-written SI / yard-pound / IEC table as prime-exponent vectors, its coherence '
            'model-checked; every predefined unit, SI prefix, documentation row and ordered unit pair of the real '
            'catalogue observed and judged by TLC (CatalogueTrace). Exhaustive: the space is finite.',
            'TLC check of the SI table + exhaustive trace validation of the predefined catalogue', '7 C20'),
})
CHECKS.update({
    'C08': ('Money.tla/MoneyTrace.tla: no-mix rules for every operator, ISO 4217 table read by an independent XML parser '
            '(167 entries: name, smallest fraction, idempotent registration, rounding), user currencies with valid / '
            'invalid parameters, construction rounded once to arbitrary smallest fractions (relational rounding on big '
            'naturals, BigLaws model-checked against Rat).',
            'TLC model checking of Big/Rat rounding laws + exhaustive trace validation of the ISO table and currency pairs', '7 C08'),
    'C09': ('Money.tla: ValidRateRepr (power-of-ten multiple, term amount >= 0.1 with six decimals, |t - true*mult| <= '
            '0.5e-6) stated multiplicatively on big naturals; construction from all input kinds, inversion, products and '
            'quotients in every shared-currency pattern, rejections - judged by TLC.',
            'TLC trace validation of exchange-rate construction and algebra against the relational spec (big naturals)', '7 C09'),
    'C10': ('Money.tla TimesOK/OverOK: money x rate and money / rate = exact product with the STORED rate rounded exactly '
            'once (IsRounded, all 8 modes) to the target currency\'s ISO minor units; mismatches rejected; judged by TLC.',
            'TLC trace validation of rate application against the relational spec (big naturals)', '7 C10'),
    'C11': ('RateTable.tla: kind of validity, entries, default date; obs = all 63 lookups as a function of the state; '
            'PeriodIsolation, Reciprocal, RejectedUpdateNoChange model-checked; every transition of the state graph (all '
            'histories of updates in every spelling, invalid ones included) executed on a real MoneyConverter and all '
            'lookups + converter calls compared.',
            'TLC model checking of RateTable.tla + execution of every state-graph transition in the real library', '7 C11'),
    'C12': ('ConvStack.tla: money converter stack with real with-blocks (normal / exceptional leave), generic converter '
            'list; TopWins, PopOnly, RejectedChangesNothing model-checked; every transition executed, registered '
            'converters and probe conversions compared after each step, histories continued below merged states.',
            'TLC model checking of ConvStack.tla + execution of every state-graph transition in the real library', '7 C12'),
    'C14': ('Affine.tla: forward / exact-inverse table conversion on exact big rationals; reference temperature maps from '
            'the defining fixed points; round trip / triangle / fixed points model-checked (AffineLaws); predefined '
            'Temperature and user tables (all presence patterns, mapping/list/iterator form) observed and judged by TLC.',
            'TLC model checking of affine laws + trace validation of table conversions', '7 C14'),
    'C18': ('Text.tla: three-way classification (accept with exact value / reject / unspecified) of quantity strings as '
            'character-code sequences, exact values on big naturals; construction from every numeric kind, str/format '
            'round trip (the spec parses str(q) itself), parse with explicit unit, malformed strings judged by TLC.',
            'TLC trace validation of construction and text forms against Text.tla (weaker: digit rendering via round trip)', '7 C18'),
})
NOT_YET = {}


def main():
    props = [json.loads(l) for l in open(os.path.join(VERIF, 'properties.jsonl'))]
    checks = []
    na = []
    for p in props:
        pid = p['id']
        if pid in CHECKS:
            text, tech, ref = CHECKS[pid]
            checks.append(dict(
                property_id=pid,
                quick_cmd='./check %s --tier quick' % pid,
                thorough_cmd='./check %s --tier thorough' % pid,
                evidence_file='/verif/evidence/%s.json' % pid,
                replay_cmd_template='./check %s --replay {path}' % pid,
                engine='tlc',
                level_claimed=dict(category='model_checking', text=text, design_ref='DESIGN.md section ' + ref),
                level_note=('bounded: TLC results hold for the stated constants (15-bit rationals, World.tla catalogue); '
                            'trusted base: TLC + CommunityModules, the harness adapters/parsers, fractions.Fraction; '
                            'decimalfp true division is guarded (DESIGN 5.2)'),
                technique=tech))
        else:
            na.append(dict(property_id=pid, reason=NOT_YET.get(pid, 'check under construction in this session - not claimed yet')))
    m = dict(
        version=1,
        setup_cmd='cd /verif && ./setup.sh',
        hooks=dict(guard='QUANTITY_VERIF',
                   enable=('no source patch in /repo: checks import $VERIF_REPO/src (default /repo/src) through '
                           '/verif/harness/qvimport.py (recompiles the working tree on every run; true division guarded '
                           'against the decimalfp defect). The tracer for the repository\'s own suite is a pytest plugin: '
                           'QUANTITY_VERIF=1 QTRACE_FILE=<ndjson> PYTHONPATH=/verif/harness pytest -p qtrace_pytest '
                           '(wraps the public operators of Quantity/Unit and of ExchangeRate at import - qtrace.py, qtrace_money.py; with the variable unset it does nothing)'),
                   baseline_off_cmd=BASE, source_commits=[], add_only=True),
        engines=[dict(name='tlc', path='/usr/local/bin/tlc', serves_properties=sorted(CHECKS),
                      kind_free_text='TLC 1.8 explicit-state model checker: model checking of the TLA+ specs in /verif/spec '
                                     'and batch trace validation of executions recorded from the real library')],
        checks=checks,
        not_applicable=na,
        notes='See DESIGN.md. ./check <id> --tier quick|thorough; exit 0 held / 1 VIOLATION / 2 machinery failure.')
    with open(os.path.join(VERIF, 'MANIFEST.json'), 'w') as f:
        json.dump(m, f, indent=1)
    print('wrote MANIFEST.json with %d checks, %d not claimed' % (len(checks), len(na)))


if __name__ == '__main__':
    main()
