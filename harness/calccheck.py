"""Shared machinery of the checks that are decided with Calc.tla: run register
programs against the library, validate the recorded traces with CalcTrace.tla,
turn deviations into verdicts, confirm dependency-division findings."""
import json
import os
import subprocess
import sys

import calcrun

HERE = os.path.dirname(os.path.abspath(__file__))


def default_sig(prog, ev):
    return 'Calc:%s' % ev.get('op', '?')


def run_programs(ctx, programs, what, sigfn=default_sig, nontrivial=None, batch=100):
    """Execute + validate.  Returns dict(program id -> list of events)."""
    if not programs:
        return {}
    byid = {p['id']: p for p in programs}
    ctx.log('%s: executing %d programs (%d ops) against the library' % (
        what, len(programs), sum(len(p['ops']) for p in programs)))
    evs, divs, crashes = calcrun.execute(programs, batch=batch)
    for pid, r in crashes:
        if '_harness_exc' in r:
            ctx.fail('%s: harness exception in program %s: %s' % (what, pid, r['_harness_exc']))
        else:
            ctx.deviation('Calc:crash', 'interpreter died while running program %s' % pid,
                          dict(kind='calc', program=byid[pid]))
    ctx.log('%s: validating %d events with CalcTrace.tla' % (what, sum(len(e) for e in evs)))
    v = calcrun.validate(evs, tag=ctx.pid + '-' + what.replace(' ', '_'))
    ctx.add_trace_verdict(v, what)
    ctx.traces += len(evs)
    evmap = {}
    for el in evs:
        pid = el[0]['id']
        evmap[pid] = el
        regvals = {}
        mode = 'ROUND_HALF_EVEN'
        for e in el[1:]:
            if e['op'] == 'SetMode':
                mode = e['m']
                continue
            if e['op'] == 'SetConv':
                mode = mode.split('+')[0] + ('+MC' if e['on'] else '')
                continue
            if e['op'] == 'Lit':
                regvals[e['z']] = ('n', e['a']) if e['k'] == 'n' else ('u', e['u'])
                continue
            if e['op'] == 'Snap':
                ctx.evaluations += 1
                continue
            key = {k: e[k] for k in e if k not in ('id', 'res', 'z', 'x', 'y', 'rs', 'ps', 'rem', 'shape')}
            key['operands'] = [regvals.get(e.get('x')), regvals.get(e.get('y'))] + \
                [regvals.get(r) for r in e.get('rs', [])]
            key['mode'] = mode
            nt = True if nontrivial is None else nontrivial(e)
            ctx.count(json.dumps(key, sort_keys=True, default=str), nt)
            r = e.get('res')
            if 'z' in e and r and r['k'] in ('q', 'n'):
                regvals[e['z']] = (r['k'], r['t'], r['u'], r['a'])
    for el in evs[:3]:
        ctx.sample(dict(program=el[0]['id'], events=[_brief(e) for e in el[1:6]]))
    for eid, verdict, exp in v.deviations:
        pid, idx = (eid[:-5] if eid.endswith(':snap') else eid).rsplit(':', 1)
        prog = dict(byid[pid])
        prog['ops'] = prog['ops'][:int(idx) + 1]
        ev = dict([e for e in evmap[pid] if e['id'] == eid][0], verdict=verdict)
        ctx.deviation(sigfn(prog, ev),
                      '%s: program %s step %s %s observed %s, specification expects %s' % (
                          what, pid, idx, _brief(ev), _brief_val(ev.get('res')), _brief_val(exp)),
                      dict(kind='calc', program=prog, event=ev, expected=exp))
    # dependency division defects seen by the guard: confirm a few on the unguarded library
    if divs:
        confirm_dep(ctx, byid, divs, what)
    return evmap


def _brief_val(r):
    if not isinstance(r, dict):
        return repr(r)
    k = r.get('k')
    if k in ('q', 't', 'qv', 'tv'):
        a = r.get('a')
        return '%s[%s/%s %s:%s]' % (k, a[0], a[1], r.get('t'), r.get('u'))
    if k == 'n':
        return 'num %s/%s' % tuple(r['a'])
    if k == 'b':
        return r['x']
    if k == 'e':
        return 'raise %s' % r['x']
    return json.dumps(r, default=str)


def _brief(e):
    return {k: v for k, v in e.items() if k not in ('res', 'id')}


def confirm_dep(ctx, byid, divs, what, limit=3):
    """Programs in which the division guard had to correct decimalfp: run a few
    of them once more in a sacrificial interpreter WITHOUT the guard and let the
    specification judge what the unguarded library returns."""
    pids = []
    for d in divs:
        if d[0] not in pids:
            pids.append(d[0])
    ctx.notes.append('%s: decimalfp division guard corrected %d division(s) in %d program(s)' % (
        what, len(divs), len(pids)))
    progs = [byid[p] for p in pids[:limit]]
    wj = calcrun.export_world()
    inp = json.dumps(dict(world=wj, programs=progs))
    try:
        p = subprocess.run([sys.executable, os.path.join(HERE, 'plainrun.py')], input=inp,
                           stdout=subprocess.PIPE, stderr=subprocess.PIPE, text=True, timeout=300)
    except subprocess.TimeoutExpired:
        p = None
    example = '%s / %s' % (divs[0][1], divs[0][2])
    if p is None or p.returncode != 0:
        ctx.deviation('dep:decimalfp-div9',
                      'unguarded interpreter died (rc=%s) on a program dividing %s' % (
                          getattr(p, 'returncode', 'timeout'), example),
                      dict(kind='calc-plain', programs=progs))
        return
    evs = json.loads(p.stdout)
    import tracecheck
    if any(tracecheck.monstrous(e) for el in evs for e in el):
        ctx.deviation('dep:decimalfp-div9', 'without the guard the library returns a number with thousands of digits '
                      '- decimalfp mis-divides %s' % example, dict(kind='calc-plain', programs=progs))
        return
    v = calcrun.validate(evs, tag=ctx.pid + '-plain')
    for e in v.errors:
        ctx.fail('plain confirmation: ' + e)
    if v.deviations:
        eid, verdict, exp = v.deviations[0]
        ctx.deviation('dep:decimalfp-div9',
                      'without the guard the library deviates at %s (expected %s) - decimalfp mis-divides %s' % (
                          eid, _brief_val(exp), example),
                      dict(kind='calc-plain', programs=progs))
    else:
        ctx.notes.append('plain confirmation: unguarded library conformed on %d program(s)' % len(progs))


def replay(ctx, rp, sigfn=default_sig):
    """Re-execute the program(s) of a replay file and judge them again."""
    r = rp['replay']
    progs = [r['program']] if 'program' in r else r.get('programs', [])
    if r.get('kind') == 'calc-plain':
        byid = {p['id']: p for p in progs}
        confirm_dep(ctx, byid, [(p['id'], '?', '?', 'replay') for p in progs], 'replay')
    else:
        run_programs(ctx, progs, 'replay', sigfn=sigfn)
