"""Builders for Calc register programs."""
from fractions import Fraction

MODES = ['ROUND_05UP', 'ROUND_CEILING', 'ROUND_DOWN', 'ROUND_FLOOR',
         'ROUND_HALF_DOWN', 'ROUND_HALF_EVEN', 'ROUND_HALF_UP', 'ROUND_UP']
CMPS = ['lt', 'le', 'gt', 'ge', 'eq', 'ne']


def nd(x):
    f = Fraction(x)
    return [f.numerator, f.denominator]


class Prog:
    def __init__(self, pid):
        self.id = pid
        self.ops = []

    def d(self):
        return {'id': self.id, 'ops': self.ops}

    def __len__(self):
        return len(self.ops)

    def setmode(self, m):
        self.ops.append({'op': 'SetMode', 'm': m})

    def setconv(self, on):
        self.ops.append({'op': 'SetConv', 'on': bool(on)})

    def make(self, z, cls, a, u, rep='dec'):
        self.ops.append({'op': 'Make', 'z': z, 'cls': cls, 'a': nd(a), 'u': u or 'NONE', 'rep': rep})

    def relabel(self, x, u, z, cls=None):
        """Quantity(<the very amount object of register x>, unit u) -> z: two quantities sharing one amount object."""
        self.ops.append({'op': 'Make', 'z': z, 'cls': cls or 'Quantity', 'a': [0, 1], 'u': u, 'rep': 'dec', 'share': x})

    def num(self, z, a, rep='dec'):
        self.ops.append({'op': 'Lit', 'k': 'n', 'a': nd(a), 'rep': rep, 'z': z})

    def unit(self, z, u):
        self.ops.append({'op': 'Lit', 'k': 'u', 'u': u, 'z': z})

    def convert(self, x, u, z):
        self.ops.append({'op': 'Convert', 'x': x, 'u': u, 'z': z})

    def bin(self, op, x, y, z):
        self.ops.append({'op': op, 'x': x, 'y': y, 'z': z})

    def neg(self, x, z):
        self.ops.append({'op': 'Neg', 'x': x, 'z': z})

    def clone(self, x, z):
        self.ops.append({'op': 'Clone', 'x': x, 'z': z})

    def abs(self, x, z):
        self.ops.append({'op': 'Abs', 'x': x, 'z': z})

    def cmp(self, c, x, y):
        self.ops.append({'op': 'Cmp', 'c': c, 'x': x, 'y': y})

    def pow(self, x, n, z):
        self.ops.append({'op': 'Pow', 'x': x, 'n': n, 'z': z})

    def quantize(self, x, y, rm, z, kw=True):
        self.ops.append({'op': 'Quantize', 'x': x, 'y': y, 'rm': rm or 'NONE', 'z': z, 'kw': kw})

    def round(self, x, n, z):
        self.ops.append({'op': 'Round', 'x': x, 'n': n, 'z': z})

    def alloc(self, x, rs, disp, zs=()):
        self.ops.append({'op': 'Alloc', 'x': x, 'rs': list(rs), 'disp': bool(disp), 'zs': list(zs)})

    def sum(self, rs, z):
        self.ops.append({'op': 'Sum', 'rs': list(rs), 'z': z})

    def sort(self, rs):
        self.ops.append({'op': 'Sort', 'rs': list(rs)})

    def hasheq(self, x, y):
        self.ops.append({'op': 'HashEq', 'x': x, 'y': y})


def world_tables(wj):
    """Convenience views of the exported world."""
    types = {t['n']: t for t in wj['types']}
    units = {}
    for r in wj['units']:
        d = dict(r['d'])
        d['scale'] = Fraction(*r['scale']) if r['scale'][1] > 0 else None
        d['quantum'] = Fraction(*r['quantum']) if r['quantum'][1] > 0 else None
        units[d['s']] = d
    by_type = {}
    for s, d in units.items():
        by_type.setdefault(d['t'], []).append(s)
    return types, units, by_type
