"""Write /verif/seeded/MATRIX.md from the meta.json files (developer tool)."""
import json
import os

root = os.path.join(os.path.dirname(os.path.dirname(os.path.abspath(__file__))), 'seeded')
rows = []
for s in sorted(os.listdir(root)):
    p = os.path.join(root, s, 'meta.json')
    if not os.path.exists(p):
        continue
    m = json.load(open(p))
    det = m.get('detected_by', {})
    caught = [k for k, v in det.items() if v.get('violations', 0) > 0 and v.get('rc') == 1]
    first = ''
    for k, v in det.items():
        if v.get('first'):
            first = v['first'][:150].replace('|', '/')
    c = m.get('confirmed', {})
    rows.append((s, m['property'], c.get('suite_with_change', ''), c.get('demo_changed_rc'), c.get('demo_pristine_rc'),
                 ', '.join(caught) or 'MISSED', first))
with open(os.path.join(root, 'MATRIX.md'), 'w') as f:
    f.write('# Seeded changes x quick checks\n\nProduced by `./seedall.sh` + `harness/mkmatrix.py`.  Every change passes the '
            'repository suite (column 3), its demonstration fails with the change (rc) and passes without.\n\n')
    f.write('| seed | property | suite with change | demo rc with / without | raised VIOLATION | first violation |\n|---|---|---|---|---|---|\n')
    for r in rows:
        f.write('| %s | %s | %s | %s / %s | %s | %s |\n' % (r[0], r[1], r[2], r[3], r[4], r[5], r[6]))
    n = sum(1 for r in rows if r[5] != 'MISSED')
    f.write('\n%d of %d seeded changes raise a VIOLATION in the quick check of their property.\n' % (n, len(rows)))
print('rows', len(rows), 'caught', sum(1 for r in rows if r[5] != 'MISSED'))
