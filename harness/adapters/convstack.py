"""Adapter for ConvStack.tla: real MoneyConverter objects, real `with`
statements (held open across steps by generators), generic converter callables."""
import re
from fractions import Fraction


class _Marker(Exception):
    pass


class _BaseMarker(BaseException):
    """Leaves a block the way GeneratorExit / KeyboardInterrupt do: not derived from Exception."""


def _block(conv):
    """Generator holding a real `with conv:` block open until told how to leave."""
    try:
        with conv:
            cmd = yield 'entered'
            if cmd == 'exc':
                raise _Marker()
            if cmd == 'base':
                raise _BaseMarker()
        yield 'left'                    # normal exit - or the exception was swallowed
    except (_Marker, _BaseMarker):
        yield 'left_exc'                # the exception propagated out of the with statement


_LABEL = re.compile(r'^(\w+)(?:\("?([\w]*)"?\))?$')


class ConvStackAdapter:
    def __init__(self):
        from quantity import Quantity, QuantityMeta
        from quantity.money import Money, MoneyConverter
        self.Money = Money
        self.B = Money.new_unit('BBB', 'base', 2)
        self.X = Money.new_unit('XXX', 'other', 2)
        self.convs = {}
        self.Y = Money.new_unit('YYY', 'third', 2)
        for name, rate, yrate in (('c1', 2, 3), ('c2', 4, 5), ('c3', 5, 2)):
            c = MoneyConverter(self.B)
            c.update(None, [(self.X, rate, 1), (self.Y, yrate, 1)])
            self.convs[name] = c
        c4 = MoneyConverter(self.B)              # knows a rate, but none for the probed pair
        c4.update(None, [(self.Y, 7, 1)])
        self.convs['c4'] = c4
        self.cname = {id(c): n for n, c in self.convs.items()}
        G = QuantityMeta('G', (Quantity,), {})
        self.G = G
        self.g1, self.g2 = G.new_unit('g1'), G.new_unit('g2')
        g1, g2 = self.g1, self.g2

        def f1(q, u):
            return q.amount * 2 - 2 if (q.unit is g1 and u is g2) else None

        def f2(q, u):
            return None

        class Tbl:
            # converters spelt as bound methods: `tbl.conv` is a new (but equal) object at every attribute access
            def __init__(self, k):
                self.k = k

            def conv(self, q, u):
                return q.amount * self.k if (q.unit is g1 and u is g2) else None
        self.tbl3, self.tbl5 = Tbl(3), Tbl(5)

        def f3(q, u):
            return q.amount * 3 if (q.unit is g1 and u is g2) else None

        def f4(q, u):
            return q.amount * 5 if (q.unit is g1 and u is g2) else None
        self.gens = {'f1': f1, 'f2': f2, 'f3': f3, 'f4': f4}
        self.gname = {id(f): n for n, f in self.gens.items()}
        self.bound = {'f3': self.tbl3, 'f4': self.tbl5}
        self.blocks = []       # open generators, innermost last

    def gen_obj(self, name):
        return self.bound[name].conv if name in self.bound else self.gens[name]

    def gen_name(self, f):
        for n, t in self.bound.items():
            if f == t.conv:
                return n
        return self.gname.get(id(f), '?')

    def nontrivial(self, dst, label):
        return True

    def do(self, act, arg):
        """Returns (ok, note)."""
        M = self.Money
        try:
            if act == 'Register':
                M.register_converter(self.convs[arg])
            elif act == 'Unregister':
                M.remove_converter(self.convs[arg])
            elif act == 'Enter':
                g = _block(self.convs[arg])
                next(g)
                self.blocks.append(g)
            elif act == 'Leave':
                g = self.blocks.pop()
                r = g.send({'leave_exc': 'exc', 'leave_base': 'base'}.get(arg, 'normal'))
                g.close()
                if arg in ('leave_exc', 'leave_base') and r != 'left_exc':
                    return True, 'exception-swallowed'
            elif act == 'RegGen':
                self.G.register_converter(self.gen_obj(arg))
            elif act == 'RemGen':
                self.G.remove_converter(self.gen_obj(arg))
            else:
                raise RuntimeError('unknown action ' + act)
        except RuntimeError:
            raise
        except Exception as exc:
            return False, '%s: %s' % (type(exc).__name__, str(exc)[:80])
        return True, ''

    def step(self, src, dst, label):
        from quantity import UnitConversionError
        m = _LABEL.match(label.strip())
        act, arg = m.group(1), m.group(2)
        ok, note = self.do(act, arg)
        devs = []
        exp = dst['out']
        if ok != exp['ok']:
            devs.append(dict(sig='ConvStack:%s:%s' % (act, 'raised' if not ok else 'accepted'),
                             what='%s(%s): library %s, specification %s' % (
                                 act, arg, ('raised ' + note) if not ok else 'succeeded',
                                 'succeeds' if exp['ok'] else 'raises and changes nothing')))
        if note == 'exception-swallowed':
            devs.append(dict(sig='ConvStack:Leave:swallowed', what='the exception raised inside the with block did not propagate'))
        # registered converters, most recent first
        got = [self.cname.get(id(c), '?') for c in self.Money.registered_converters()]
        want = list(dst['stack'])[::-1]
        if got != want:
            devs.append(dict(sig='ConvStack:%s:stack' % act, what='registered_converters() = %s, specification: %s' % (got, want)))
        try:
            amt = Fraction(self.Money(1, self.B).convert(self.X).amount)
        except UnitConversionError:
            amt = 0
        except Exception as exc:
            amt = 'raises %s' % type(exc).__name__
        if amt != dst['probe']:
            devs.append(dict(sig='ConvStack:%s:probe' % act, what='1 BBB converts to %s XXX, specification: %s (0 = UnitConversionError)' % (amt, dst['probe'])))
        # the cross rate (neither currency is the base currency) and a zero amount: both answered by the top converter
        try:
            xamt = Fraction(self.Money(1, self.X).convert(self.Y).amount) * 100
        except UnitConversionError:
            xamt = 0
        except Exception as exc:
            xamt = 'raises %s' % type(exc).__name__
        if xamt != dst['xprobe']:
            devs.append(dict(sig='ConvStack:%s:xprobe' % act, what='1 XXX converts to %s/100 YYY, specification: %s/100 (0 = UnitConversionError)' % (xamt, dst['xprobe'])))
        try:
            zamt = Fraction(self.Money(0, self.B).convert(self.X).amount)
            zok = True
        except UnitConversionError:
            zok = False
        except Exception as exc:
            zok = 'raises %s' % type(exc).__name__
        if zok != (dst['probe'] != 0) or (zok is True and zamt != 0):
            devs.append(dict(sig='ConvStack:%s:zero' % act, what='0 BBB -> XXX: %s, specification: %s' % (
                'converts' if zok is True else zok or 'UnitConversionError', 'zero XXX' if dst['probe'] else 'UnitConversionError')))
        ggot = [self.gen_name(f) for f in self.G.registered_converters()]
        gwant = list(dst['gen'])[::-1]
        if ggot != gwant:
            devs.append(dict(sig='ConvStack:%s:genlist' % act, what='generic registered_converters() = %s, specification: %s' % (ggot, gwant)))
        try:
            gamt = Fraction(self.G(2, self.g1).convert(self.g2).amount)
        except UnitConversionError:
            gamt = 0
        except Exception as exc:
            gamt = 'raises %s' % type(exc).__name__
        if gamt != dst['gprobe']:
            devs.append(dict(sig='ConvStack:%s:genprobe' % act, what='2 g1 converts to %s g2, specification: %s' % (gamt, dst['gprobe'])))
        try:
            gz = Fraction(self.G(1, self.g1).convert(self.g2).amount)
        except UnitConversionError:
            gz = -1
        except Exception as exc:
            gz = 'raises %s' % type(exc).__name__
        if gz != dst['gzero']:
            devs.append(dict(sig='ConvStack:%s:genzero' % act, what='1 g1 converts to %s g2, specification: %s (-1 = UnitConversionError; the most recent converter that answers wins, also with 0)' % (gz, dst['gzero'])))
        return devs


def make():
    return ConvStackAdapter()
