"""Adapter for Terms.tla: the real Term class over real units of real quantity types."""
import numbers
from fractions import Fraction

from adapters.calc import mk_amount, rat_json


class TermsWorld:
    def declare(self):
        from quantity import Quantity, QuantityMeta
        from quantity.term import Term
        X = QuantityMeta('X', (Quantity,), {}, ref_unit_symbol='x')
        Y = QuantityMeta('Y', (Quantity,), {}, ref_unit_symbol='y')
        N = QuantityMeta('N', (Quantity,), {})
        XpY = QuantityMeta('XpY', (Quantity,), {}, define_as=X / Y, ref_unit_symbol='xy')
        x, y, xy = X.ref_unit, Y.ref_unit, XpY.ref_unit
        p, q = N.new_unit('p'), N.new_unit('q')
        kx = X.new_unit('kx', None, mk_amount([10, 1], 'dec') * x)
        hx = X.new_unit('hx', None, Fraction(1, 2) * kx)
        kxy = XpY.derive_unit_from(kx, y, symbol='kxy')
        self.el = dict(x=x, y=y, p=p, q=q, kx=kx, hx=hx, xy=xy, kxy=kxy)
        self.name = {id(v): k for k, v in self.el.items()}
        self.Term = Term
        return self

    def mk(self, items):
        """items: list of dicts -> list of (elem, exp) for Term()."""
        out = []
        for it in items:
            if it['k'] == 'num':
                out.append((mk_amount(it['v'], it['ty']), it['e']))
            else:
                out.append((self.el[it['n']], it['e']))
        return out

    def proj(self, term):
        out = []
        for elem, exp in term:
            if isinstance(elem, float):
                out.append(dict(k='num', n='', v=[0, -3], e=int(exp), ty='float'))
            elif isinstance(elem, numbers.Rational):
                ty = 'int' if isinstance(elem, int) else ('frac' if isinstance(elem, Fraction) else 'dec')
                out.append(dict(k='num', n='', v=rat_json(elem), e=int(exp), ty=ty))
            else:
                out.append(dict(k='el', n=self.name.get(id(elem), '?' + str(elem)), v=[1, 1], e=int(exp), ty=''))
        return out


def run_case(w, case):
    """case: dict(op=..., ...) with item lists; returns the event."""
    RealTerm = w.Term
    warm = case.get('warm', 0)

    def Term(items):
        # warm > 0: the operand has been normalized / hashed / compared before the operation
        # (the object caches its normal form and hash) - results must not depend on that
        t = RealTerm(items)
        if warm:
            t.normalized()
            hash(t)
            if warm > 1:
                t == RealTerm(items)
                t.is_normalized
        return t
    ev = dict(case)
    op = case['op']
    try:
        if op == 'make':
            t = Term(w.mk(case['t']))
            _with_norm(w, ev, t)
        elif op == 'norm':
            t = Term(w.mk(case['t']))
            n = t.normalized()
            ev['res'] = w.proj(n)
            n2 = n.normalized()
            ev['idem'] = bool(n2.items == n.items and n.is_normalized and Term(n.items).normalized().items == n.items)
            ne = n.num_elem
            if isinstance(ne, float):
                ev['numel'] = [0, -3]
            else:
                ev['numel'] = rat_json(ne) if ne is not None else [1, 1]
            num, rest = n.split()
            want_rest = tuple(n.items[1:]) if ne is not None else tuple(n.items)
            ev['split'] = bool((num == (ne if ne is not None else 1)) and tuple(rest.items) == want_rest
                               and not isinstance(num, float))
        elif op in ('mul', 'div'):
            a, b = Term(w.mk(case['a'])), Term(w.mk(case['b']))
            _with_norm(w, ev, a * b if op == 'mul' else a / b)
        elif op == 'pow':
            a = Term(w.mk(case['a']))
            if case['n'] == -1 and case.get('recip'):
                _with_norm(w, ev, a.reciprocal())
            else:
                _with_norm(w, ev, a ** case['n'])
        elif op in ('mulnum', 'rdiv', 'divnum'):
            a = Term(w.mk(case['a']))
            k = mk_amount(case['k'], case['kty'])
            if op == 'mulnum':
                r = (k * a) if case.get('left') else (a * k)
            elif op == 'rdiv':
                r = k / a
            else:
                r = a / k
            _with_norm(w, ev, r)
        elif op == 'eq':
            a, b = Term(w.mk(case['a'])), Term(w.mk(case['b']))
            ev['eq'] = bool(a == b)
            ev['heq'] = bool(hash(a) == hash(b) and (len({a, b}) == 1 or not ev['eq']))
    except Exception as exc:
        ev['exc'] = '%s: %s' % (type(exc).__name__, str(exc)[:100])
    return ev


def _with_norm(w, ev, term):
    """Record the result and, separately, what normalising the result object gives."""
    ev['res'] = w.proj(term)
    n = term.normalized()
    ev['resn'] = w.proj(n)
    ev['resn_flag'] = bool(n.is_normalized and (term.is_normalized == (tuple(term.items) == tuple(n.items))))
