"""Adapter for Money.tla: exchange rates, money x rate, currency mixing, ISO table."""
import decimal
import json
import numbers
import os
import xml.etree.ElementTree as ET
from fractions import Fraction

from adapters.calc import mk_amount


def limbs(n):
    n = int(n)
    assert n >= 0
    out = []
    while n:
        out.append(n % 10000)
        n //= 10000
    return out


def qjson(x):
    f = Fraction(x)
    return dict(s=(1 if f > 0 else -1 if f < 0 else 0), n=limbs(abs(f.numerator)), d=limbs(f.denominator))


def iso_table(repo=None):
    """Independent parse of the bundled ISO 4217 table: functional entries only
    (alphabetic code, numeric code and numeric minor units present)."""
    repo = repo or os.environ.get('VERIF_REPO', '/repo')
    path = os.path.join(repo, 'src', 'quantity', 'money', 'iso_4217.xml')
    out = {}
    for e in ET.parse(path).getroot().iter('CcyNtry'):
        code = e.findtext('Ccy')
        name = e.findtext('CcyNm')
        num = e.findtext('CcyNbr')
        minor = e.findtext('CcyMnrUnts')
        if not code or not num or minor is None or not minor.strip().isdigit():
            continue
        out.setdefault(code, dict(code=code, name=name, minor=int(minor)))
    return [out[k] for k in sorted(out)]


def mk_value(spec):
    """spec: dict(kind=int|dec|frac|str|float|stddec|obj, n=.., d=.., text=..) -> python object."""
    k = spec['kind']
    if k == 'str':
        return spec['text']
    if k == 'obj':
        return object()
    n, d = spec['n'], spec['d']
    if k == 'int':
        return n // d
    if k == 'frac':
        return Fraction(n, d)
    if k == 'float':
        return n / d
    if k == 'stddec':
        return decimal.Decimal(n) / decimal.Decimal(d)
    return mk_amount([n, d], 'dec')


def proj_rate(r):
    from decimalfp import Decimal
    o = dict(st='ok', mro=[], uc=r.unit_currency.symbol, tc=r.term_currency.symbol, k=-1, t6=[], wf=True,
             rate=qjson(r.rate), inv=qjson(r.inverse_rate))
    um, ta = Fraction(r._unit_multiple), Fraction(r._term_amount)
    k = 0
    p = Fraction(1)
    while p < um and k < 40:
        p *= 10
        k += 1
    if p != um:
        o['wf'] = False
    o['k'] = k
    t6 = ta * 10 ** 6
    if t6.denominator != 1 or t6 <= 0 or not isinstance(r._term_amount, Decimal):
        o['wf'] = False
        t6 = Fraction(abs(int(t6)))
    o['t6'] = limbs(t6.numerator)
    if r.quotation != (r.unit_currency, r.term_currency, r.rate):
        o['wf'] = False
    return o


def err(exc):
    return dict(st='err', mro=[c.__name__ for c in type(exc).__mro__], uc='', tc='', k=0, t6=[], wf=False,
                rate=qjson(0), inv=qjson(0), msg=str(exc)[:80])


class MoneyWorld:
    def __init__(self, codes):
        from quantity.money import Money, ExchangeRate
        self.Money, self.ExchangeRate = Money, ExchangeRate
        self.cur = {c: Money.register_currency(c) for c in codes}

    def mk_rate(self, r):
        """stored form dict(uc, tc, k, t6 limbs) -> ExchangeRate (through the public constructor)."""
        t6 = sum(l * 10000 ** i for i, l in enumerate(r['t6']))
        return self.ExchangeRate(self.cur[r['uc']], 10 ** r['k'], self.cur[r['tc']],
                                 mk_amount([t6, 10 ** 6], 'dec'))


def run_case(w, c):
    import decimalfp
    from decimalfp import ROUNDING
    from quantity import Quantity
    ev = dict(c)
    op = c['op']
    try:
        if op == 'rate_make':
            try:
                uc = w.cur[c['uc']] if not c.get('ucstr') else c['uc']
                tc = w.cur[c['tc']] if not c.get('tcstr') else c['tc']
                r = w.ExchangeRate(uc, mk_value(c['multv']), tc, mk_value(c['amtv']))
                ev['obs'] = proj_rate(r)
            except Exception as exc:
                ev['obs'] = err(exc)
        elif op == 'rate_invert':
            r = w.mk_rate(c['r'])
            if c.get('via') == 'inv':
                r = r.inverted()          # the operand is itself the product of an inversion
            ev['r'] = proj_rate(r)
            try:
                ev['obs'] = proj_rate(r.inverted())
            except Exception as exc:
                ev['obs'] = err(exc)
        elif op in ('rate_mul', 'rate_div'):
            r1, r2 = w.mk_rate(c['r1']), w.mk_rate(c['r2'])
            ev['r1'], ev['r2'] = proj_rate(r1), proj_rate(r2)
            try:
                ev['obs'] = proj_rate(r1 * r2 if op == 'rate_mul' else r1 / r2)
            except Exception as exc:
                ev['obs'] = err(exc)
        elif op == 'rate_eq':
            # two rates given by (multiple, amount) inputs
            r1 = w.ExchangeRate(w.cur[c['a']['uc']], mk_value(c['a']['m']), w.cur[c['a']['tc']], mk_value(c['a']['t']))
            r2 = w.ExchangeRate(w.cur[c['b']['uc']], mk_value(c['b']['m']), w.cur[c['b']['tc']], mk_value(c['b']['t']))
            if c.get('via') == 'inv2':
                r2 = r2.inverted().inverted()
            elif c.get('via') == 'hashinv':
                # a rate that has been hashed is inverted; the inverse is compared with an equal rate built afresh
                hash(r2)
                r2 = r2.inverted()
                r1 = w.ExchangeRate(r2.unit_currency, r2._unit_multiple, r2.term_currency, r2._term_amount)
            ev['r1'], ev['r2'] = proj_rate(r1), proj_rate(r2)
            ev['eq'] = bool(r1 == r2)
            ev['heq'] = bool(hash(r1) == hash(r2) and (len({r1, r2}) == 1 or not ev['eq']))
        elif op == 'money_rate':
            decimalfp.set_dflt_rounding_mode(ROUNDING[c['mode']])
            try:
                r = w.mk_rate(c['r'])
                if c.get('via') == 'identity':
                    # the rate of a currency to itself, as a money converter reports it
                    from quantity.money import MoneyConverter
                    r = MoneyConverter(w.cur[c['r']['tc']]).get_rate(w.cur[c['r']['uc']], w.cur[c['r']['uc']])
                elif c.get('via') == 'inv':
                    r = r.inverted()
                elif c.get('via') == 'inv2':
                    r = r.inverted().inverted()
                ev['r'] = proj_rate(r)
                a = Fraction(c['an'], c['ad'])
                m = w.Money(mk_amount([c['an'], c['ad']], c.get('rep', 'dec')), w.cur[c['cur']])
                ev['amt'] = qjson(m.amount)       # the STORED operand
                cvr = None
                if c.get('conv'):
                    # a registered converter that knows every pair must not change what money (*|/) rate means
                    from quantity.money import MoneyConverter
                    cvr = MoneyConverter(w.cur['EUR'])
                    cvr.update(None, [(w.cur[x], 2, 1) for x in w.cur if x != 'EUR'])
                    w.Money.register_converter(cvr)
                try:
                    if c['form'] == 'mul':
                        res = m * r
                    elif c['form'] == 'rmul':
                        res = r * m
                    else:
                        res = m / r
                    o = dict(st='ok', mro=[], t=type(res).__name__, cur='', R=[], ongrid=False)
                    if isinstance(res, Quantity) and not isinstance(res.amount, float):
                        o['cur'] = res.unit.symbol
                        q = getattr(res.unit, 'smallest_fraction', None)
                        if q is not None:
                            k = Fraction(res.amount) / Fraction(q)
                            o['ongrid'] = k.denominator == 1
                            o['R'] = limbs(abs(int(k)))
                            o['neg'] = k < 0
                    ev['obs'] = o
                except Exception as exc:
                    ev['obs'] = dict(st='err', mro=[x.__name__ for x in type(exc).__mro__], t='', cur='', R=[], ongrid=False)
            finally:
                decimalfp.set_dflt_rounding_mode(ROUNDING.ROUND_HALF_EVEN)
                if c.get('conv'):
                    try:
                        w.Money.remove_converter(cvr)
                    except Exception:
                        pass
        elif op == 'mix':
            import operator
            f = c['f']
            a = w.Money(mk_amount(c['a'], 'dec'), w.cur[c['c1']])
            b = w.Money(mk_amount(c['b'], 'frac' if c.get('k', 0) % 2 else 'dec'), w.cur[c['c2']])
            o = dict(st='err', mro=[], t='', cur='', ongrid=False, exact=False, b=False)
            if c.get('pre') == 'nested':
                # the same converter entered again inside another one's block: with A: with B: with A - all left
                from quantity.money import MoneyConverter
                cA, cB = MoneyConverter(w.cur[c['c1']]), MoneyConverter(w.cur[c['c1']])
                for cv_, r_ in ((cA, 2), (cB, 3)):
                    if c['c1'] != c['c2']:
                        cv_.update(None, [(w.cur[c['c2']], r_, 1)])
                try:
                    with cA:
                        with cB:
                            with cA:
                                pass
                except Exception:
                    pass
            if c.get('pre') in ('block', 'block_exc'):
                # a converter that knows the pair was active in a with-block that has been left (normally / by an
                # exception): no converter is active any more
                from quantity.money import MoneyConverter
                cv = MoneyConverter(w.cur[c['c1']])
                if c['c1'] != c['c2']:
                    cv.update(None, [(w.cur[c['c2']], 2, 1)])
                try:
                    with cv:
                        if c['pre'] == 'block_exc':
                            raise KeyError('leave the block by an exception')
                except KeyError:
                    pass
            try:
                if f == 'convert':
                    res = a.convert(w.cur[c['c2']])
                elif f == 'parse':
                    # text naming one currency, unit argument naming the other: a conversion like any other
                    res = w.Money('%s %s' % (Fraction(*c['a']).numerator if Fraction(*c['a']).denominator == 1
                                             else format(mk_amount(c['a'], 'dec'), 'f'), c['c1']), w.cur[c['c2']])
                else:
                    res = {'add': operator.add, 'sub': operator.sub, 'div': operator.truediv, 'mul': operator.mul,
                           'lt': operator.lt, 'le': operator.le, 'gt': operator.gt, 'ge': operator.ge,
                           'eq': operator.eq, 'ne': operator.ne}[f](a, b)
                fa, fb = Fraction(a.amount), Fraction(b.amount)
                if isinstance(res, bool):
                    want = {'lt': fa < fb, 'le': fa <= fb, 'gt': fa > fb, 'ge': fa >= fb, 'eq': fa == fb, 'ne': fa != fb}.get(f)
                    o.update(st='bool', b=res, exact=(want is None or res == want))
                elif isinstance(res, Quantity):
                    q = Fraction(res.unit.smallest_fraction)
                    want = {'add': fa + fb, 'sub': fa - fb, 'convert': fa, 'parse': fa}.get(f)
                    o.update(st='ok', t=type(res).__name__, cur=res.unit.symbol,
                             ongrid=(Fraction(res.amount) / q).denominator == 1,
                             exact=(want is not None and Fraction(res.amount) == want))
                elif isinstance(res, numbers.Rational):
                    o.update(st='num', exact=(fb != 0 and Fraction(res) == fa / fb))
                else:
                    o.update(st='other')
            except Exception as exc:
                o.update(st='err', mro=[x.__name__ for x in type(exc).__mro__])
            ev['obs'] = o
        elif op == 'iso':
            M = w.Money
            code = c['code']
            o = dict(st='err', registered=False, name='', md=-1, fraction_is_pow10=False, same_object=False, rounds=False)
            before = {u.symbol for u in M.units()}
            try:
                cur = M.register_currency(code)
            except Exception as exc:
                # rejected: nothing may have been registered - neither under the text given nor under any other symbol
                from quantity import Unit
                try:
                    Unit(code)
                    reg = True
                except Exception:
                    reg = False
                o.update(st='err', registered=bool(reg or {u.symbol for u in M.units()} != before), exc=type(exc).__name__)
            else:
                o.update(st='ok', registered=True)
                try:
                    sf = Fraction(cur.smallest_fraction)
                    md = 0
                    while sf * 10 ** md < 1 and md < 12:
                        md += 1
                    m = M(mk_amount([1234567, 10 ** 6], 'dec'), cur)
                    q = Fraction(m.amount) / sf
                    o.update(name=cur.name, md=md, fraction_is_pow10=(sf * 10 ** md == 1),
                             rounds=(q.denominator == 1 and abs(Fraction(m.amount) - Fraction(1234567, 10 ** 6)) <= sf / 2
                                     and cur.iso_code == code))
                    o['same_object'] = bool(M.register_currency(code) is cur and Quantity('1 ' + code).unit is cur)
                except Exception as exc:
                    o['exc'] = type(exc).__name__
            ev['obs'] = o
        elif op == 'newcur':
            from quantity import Unit, QuantityError
            M = w.Money
            sym = c['sym']
            kw = {}
            if c['minor']['given']:
                kw['minor_unit'] = mk_value(c['minor']['obj'])
            if c['sf']['given']:
                kw['smallest_fraction'] = mk_value(c['sf']['obj'])
            symarg = {'': '', '#5': 5}.get(sym, sym)
            o = dict(st='err', registered=False, owner='', q=qjson(0), parses=False, listed=False, later_ok=False)
            before = set(u.symbol for u in M.units())
            try:
                cur = M.new_unit(symarg, 'test currency', **kw)
                o.update(st='ok', q=qjson(cur.smallest_fraction), owner=cur.qty_cls.__name__)
            except Exception as exc:
                o['exc'] = type(exc).__name__
            probe = sym if sym not in ('', '#5') else 'QQ%s' % c['id'].split(':')[-1]
            # anything but "unknown symbol" counts as a trace of the declaration (also an unexpected exception)
            try:
                Unit(probe)
                o['registered'] = True
            except ValueError:
                pass
            except Exception as exc:
                o.update(registered=True, probe_exc=type(exc).__name__)
            try:
                Quantity('1 ' + probe)
                o['parses'] = True
            except QuantityError:
                pass
            except Exception as exc:
                o.update(parses=True, parse_exc=type(exc).__name__)
            try:
                o['listed'] = set(u.symbol for u in M.units()) != before
            except Exception as exc:
                o.update(listed=True, list_exc=type(exc).__name__)
            if o['st'] == 'err':
                try:
                    cur2 = M.new_unit(probe, 'later valid', 2)
                    o['later_ok'] = Unit(probe) is cur2
                except Exception:
                    o['later_ok'] = False
            ev['obs'] = o
        elif op == 'construct':
            decimalfp.set_dflt_rounding_mode(ROUNDING[c['mode']])
            try:
                M = w.Money
                sym = 'U' + c['id'].split(':')[-1]
                if c.get('minor') is not None:
                    cur = M.new_unit(sym, 'user currency', c['minor'])
                else:
                    cur = M.new_unit(sym, 'user currency', None, mk_value(c['sfv']))
                o = dict(st='err', ongrid=False, R=[], neg=False, text_roundtrip=False)
                try:
                    if c['how'] == 'str':
                        m = M('%s %s' % (c['text'], sym))
                    elif c['how'] == 'unitmul':
                        m = mk_value(c['amtv']) * cur
                    elif c['how'] == 'unitrmul':
                        m = cur * mk_value(c['amtv'])
                    elif c['how'] == 'sum':
                        x = M(mk_value(c['amtv']), cur)
                        m = x + x - x
                    else:
                        m = M(mk_value(c['amtv']), cur)
                    k = Fraction(m.amount) / Fraction(cur.smallest_fraction)
                    # text form (C18): format() without a specification equals str(), and the text parses back to the
                    # identical amount of money through the generic and the typed factory
                    from quantity import Quantity as _Q
                    txt = str(m)
                    try:
                        back = _Q(txt), M(txt)
                        rt = (format(m) == txt and all(type(b) is type(m) and b.unit is m.unit and b.amount == m.amount
                                                       for b in back))
                    except Exception:
                        rt = False
                    o.update(st='ok', ongrid=(k.denominator == 1 and not isinstance(m.amount, float)),
                             R=limbs(abs(int(k))), neg=k < 0, text_roundtrip=bool(rt))
                except Exception as exc:
                    o['exc'] = type(exc).__name__
                ev['obs'] = o
            finally:
                decimalfp.set_dflt_rounding_mode(ROUNDING.ROUND_HALF_EVEN)
        elif op == 'price_late':
            # the target compound unit is declared only AFTER a first (refused) attempt: the retry finds it
            from quantity import Quantity, QuantityMeta, QuantityError
            n = c['id'].split(':')[-1]
            Mass = QuantityMeta('LMass' + n, (Quantity,), {}, ref_unit_symbol='lkg' + n)
            PPM = QuantityMeta('LPrice' + n, (Quantity,), {}, define_as=w.Money / Mass)
            src = PPM.derive_unit_from(w.cur[c['r']['uc']], Mass.ref_unit)
            r = w.mk_rate(c['r'])
            price = PPM(mk_amount([c['n'], c['d']], 'dec'), src)
            o = dict(first_refused=False, st='err', value_ok=False, unit_ok=False)
            try:
                price * r if c['form'] == 'mul' else r * price
            except QuantityError:
                o['first_refused'] = True
            except Exception as exc:
                o['exc1'] = type(exc).__name__
            tgt = PPM.derive_unit_from(w.cur[c['r']['tc']], Mass.ref_unit)
            r2 = w.mk_rate(c['r']) if c.get('fresh') else r
            try:
                res = price * r2 if c['form'] == 'mul' else r2 * price
                o.update(st='ok', unit_ok=res.unit is tgt and type(res) is PPM,
                         value_ok=Fraction(res.amount) == Fraction(price.amount) * Fraction(r2.rate))
            except Exception as exc:
                o['exc2'] = type(exc).__name__
            ev['obs'] = o
        elif op == 'price_mass':
            # mass * price (money per mass) in one currency, then in another: each stays in its own currency
            PPM, units, Mass, mass = price_world(w, c['decl'])
            o = dict(st='err', cur='', t='', exact=False)
            try:
                res = None
                for (cu, a) in c['seq']:
                    q = Mass(2, mass['kg'])
                    pr = PPM(mk_amount(a, 'dec'), units[(cu, 'kg')])
                    res = q * pr if c['form'] == 'mul' else pr * q
                    last = (cu, a)
                o.update(st='ok', cur=res.unit.symbol if hasattr(res, 'unit') else '?', t=type(res).__name__,
                         exact=Fraction(res.amount) == 2 * Fraction(*last[1]))
            except Exception as exc:
                o['exc'] = type(exc).__name__
            ev['obs'] = o
            ev['want'] = c['seq'][-1][0]
        elif op == 'price_rate':
            ev['obs'] = price_case(w, c)
            ev['r'] = proj_rate(w.mk_rate(c['r']))
        elif op == 'isocount':
            from quantity.money import currencies
            ev['n'] = len(getattr(currencies, '_currency_dict', getattr(currencies, '_CURRENCY_DICT', {})))
    except Exception as exc:
        import traceback
        ev['exc'] = ''.join(traceback.format_exception(type(exc), exc, exc.__traceback__))[-600:]
    return ev


_PRICE = {}


def price_world(w, decl):
    """A money-per-mass type with exactly the declared compound units (one world per declared set and process)."""
    from quantity import Quantity, QuantityMeta
    key = tuple(sorted((d['c'], d['m']) for d in decl))
    if key in _PRICE:
        return _PRICE[key]
    n = len(_PRICE)
    Mass = QuantityMeta('PMass%d' % n, (Quantity,), {}, ref_unit_symbol='pkg%d' % n)
    kg = Mass.ref_unit
    mass = {'kg': kg, 'g': Mass.new_unit('pg%d' % n, None, mk_amount([1, 1000], 'dec') * kg),
            't': Mass.new_unit('pt%d' % n, None, 1000 * kg)}
    PPM = QuantityMeta('PricePerMass%d' % n, (Quantity,), {}, define_as=w.Money / Mass)
    units = {}
    for d in decl:      # declaration order as given
        if d['m'] == 't' and (d['c'], 'kg') in units:
            # a definition chain of depth 2: 1 EUR/t = 0.001 EUR/kg (the definition names another price unit)
            units[(d['c'], 't')] = PPM.new_unit('%s/t#%d' % (d['c'], n), None,
                                               mk_amount([1, 1000], 'dec') * units[(d['c'], 'kg')])
        else:
            units[(d['c'], d['m'])] = PPM.derive_unit_from(w.cur[d['c']], mass[d['m']])
    _PRICE[key] = (PPM, units, Mass, mass)
    return _PRICE[key]


_RATE_OBJ = {}


def price_case(w, c):
    PPM, units, Mass, mass = price_world(w, c['decl'])
    p = c['p']
    # one rate object per stored rate and process: applied again and again (a price list converted with one rate)
    rk = json.dumps(c['r'], sort_keys=True)
    if rk not in _RATE_OBJ:
        _RATE_OBJ[rk] = w.mk_rate(c['r'])
    r = _RATE_OBJ[rk]
    o = dict(st='err', mro=[], c='', m='', a=qjson(0), sametype=False)
    try:
        amt = mk_amount([p['n'], p['d']], p.get('rep', 'dec'))
        if p['ismoney']:
            q = PPM(amt, units[(p['c'], p['m'])])
        else:
            q = Mass(amt, mass[p['m']])
        if c['form'] == 'mul':
            res = q * r
        elif c['form'] == 'rmul':
            res = r * q
        else:
            res = q / r
        name = [k for k, v in units.items() if v is res.unit]
        if isinstance(res.amount, float):
            o['st'] = 'inexact'
        else:
            o.update(st='ok', c=name[0][0] if name else '?', m=name[0][1] if name else '?', a=qjson(res.amount),
                     sametype=type(res) is PPM)
    except Exception as exc:
        o.update(st='err', mro=[k.__name__ for k in type(exc).__mro__])
    return o
