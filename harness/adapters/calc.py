"""Adapter for Calc.tla: declares the world of World.tla in the real library and
executes register programs, recording one event per public call."""
import decimal
import operator
from fractions import Fraction

BIG = 2 ** 31 - 1


def rat_json(a):
    """Exact rational -> [n, d]; [0, -2] if it does not fit 32 bits."""
    f = Fraction(a)
    if abs(f.numerator) > BIG or f.denominator > BIG:
        return [0, -2]
    return [f.numerator, f.denominator]


def mk_amount(nd, rep):
    """Build the amount object handed to the library."""
    from decimalfp import Decimal
    n, d = nd
    if rep == 'int' and d == 1:
        return int(n)
    if rep == 'frac':
        return Fraction(n, d)
    if rep == 'bool' and d == 1 and n in (0, 1):
        return bool(n)
    if rep == 'float':
        return n / d
    if rep == 'stddec':
        return decimal.Decimal(n) / decimal.Decimal(d)
    # 'dec': decimalfp.Decimal when the value terminates, else Fraction
    dd = d
    while dd % 2 == 0:
        dd //= 2
    while dd % 5 == 0:
        dd //= 5
    if dd != 1:
        return Fraction(n, d)
    with decimal.localcontext() as ctx:
        ctx.prec = 200
        s = format(decimal.Decimal(n) / decimal.Decimal(d), 'f')
    return Decimal(s)


class World:
    def __init__(self, wj):
        self.wj = wj
        self.types = {}
        self.units = {}
        self.setup_errors = []

    def declare(self):
        import quantity
        from quantity import Quantity, QuantityMeta, TableConverter
        from quantity.term import Term
        wj = self.wj
        for t in wj['types']:
            name = t['n']
            if name == 'Money':
                from quantity.money import Money
                self.types[name] = Money
                continue
            kw = {}
            if t['def']:
                term = None
                for cn, exp in t['def']:
                    part = self.types[cn] ** exp
                    term = part if term is None else term * part
                kw['define_as'] = term
            if t['ref'] != 'NONE':
                kw['ref_unit_symbol'] = t['ref']
            if t['q'] != [0, 0]:
                kw['quantum'] = Fraction(*t['q'])
            cls = QuantityMeta(name, (Quantity,), {}, **kw)
            self.types[name] = cls
            if t['ref'] != 'NONE':
                self.units[t['ref']] = cls.ref_unit
        for rec in wj['units']:
            d = rec['d']
            sym, cls = d['s'], self.types[d['t']]
            kind = d['kind']
            if kind == 'ref':
                continue
            if kind == 'plain':
                u = cls.new_unit(sym)
            elif kind == 'scaled':
                f = mk_amount(d['f'], d['frep'])
                u = cls.new_unit(sym, 'a unit of ' + cls.__name__, f * self.units[d['of']])
            elif kind == 'derive':
                u = cls.derive_unit_from(*[self.units[a] for a in d['args']], symbol=sym, name='a unit of ' + cls.__name__)
            elif kind == 'term':
                u = cls.new_unit(sym, 'a unit of ' + cls.__name__, Term([(self.units[s], e) for s, e in d['items']]))
            elif kind == 'cur':
                u = cls.new_unit(sym, sym, d['md'])
            else:
                raise ValueError(kind)
            self.units[sym] = u
        rows = [(self.units[r['from']], self.units[r['to']],
                 mk_amount(r['f'], 'int' if r['f'][1] == 1 and r['o'][1] == 1 and r['f'][0] != 1 else 'frac'),
                 mk_amount(r['o'], 'int' if r['f'][1] == 1 and r['o'][1] == 1 and r['f'][0] != 1 else 'dec')) for r in wj['ttable']]
        if rows:
            # two converters on the type: the older one knows the temperature-like rows, the newer one only the row of
            # tx - conversions between the other units are answered by the OLDER one after the newer one declined
            old_rows = [r for r, w_ in zip(rows, wj['ttable']) if 'tx' not in (w_['from'], w_['to'])]
            new_rows = [r for r, w_ in zip(rows, wj['ttable']) if 'tx' in (w_['from'], w_['to'])]
            self.types['T'].register_converter(TableConverter(old_rows))
            if new_rows:
                self.types['T'].register_converter(TableConverter(new_rows))
        # every symbol is offered once more with another definition: the attempt is refused (C15 / C16) and the world
        # stays what it is - from here on units are fetched through their type's own directory
        for sym, u in list(self.units.items()):
            cls = u.qty_cls
            try:
                if cls.ref_unit is not None and cls.ref_unit is not u and not getattr(cls, 'quantum', None):
                    cls.new_unit(sym, 'again', 7 * cls.ref_unit)
                else:
                    cls.new_unit(sym, 'again')
            except ValueError:
                pass
            self.units[sym] = cls.get_unit_by_symbol(sym)
        self.Quantity = Quantity
        self.quantity = quantity
        return self


def proj(x):
    """Projection of a result of the library to the uniform value record."""
    from quantity import Quantity, Unit
    import numbers
    r = {'k': 'other', 't': 'NONE', 'u': 'NONE', 'a': [0, 0], 'x': '', 'mro': []}
    if isinstance(x, BaseException):
        r['k'] = 'e'
        r['x'] = type(x).__name__
        r['mro'] = [c.__name__ for c in type(x).__mro__]
        return r
    if isinstance(x, bool):
        r['k'] = 'b'
        r['x'] = 'TRUE' if x else 'FALSE'
        return r
    if isinstance(x, Quantity):
        a = x.amount
        if isinstance(a, float) or not isinstance(a, numbers.Rational):
            r['k'] = 'inexact'
            r['x'] = type(a).__name__
            return r
        r.update(k='q', t=type(x).__name__, u=x.unit.symbol, a=rat_json(a))
        return r
    if isinstance(x, tuple) and len(x) == 2:
        amnt, unit = x
        if isinstance(amnt, float) or not isinstance(amnt, numbers.Rational):
            r['k'] = 'inexact'
            return r
        if unit is None:
            r.update(k='n', a=rat_json(amnt))
        elif isinstance(unit, Unit):
            r.update(k='t', t=unit.qty_cls.__name__, u=unit.symbol, a=rat_json(amnt))
        return r
    if isinstance(x, float):
        r['k'] = 'inexact'
        r['x'] = 'float'
        return r
    if isinstance(x, numbers.Rational):
        r.update(k='n', a=rat_json(x))
        return r
    if isinstance(x, Unit):
        r.update(k='u', t=x.qty_cls.__name__, u=x.symbol, a=[1, 1])
        return r
    r['x'] = type(x).__name__
    return r


_CMP = {'lt': operator.lt, 'le': operator.le, 'gt': operator.gt, 'ge': operator.ge,
        'eq': operator.eq, 'ne': operator.ne}
_BIN = {'Add': operator.add, 'Sub': operator.sub, 'Mul': operator.mul, 'Div': operator.truediv}


_EMPTY = {'k': '0', 't': 'NONE', 'u': 'NONE', 'a': [0, 0], 'x': '', 'mro': []}


def snap_event(pid, idx, regs):
    """The projection of every register: operations never change their operands (quantities are immutable),
    so each register must still hold what the specification stored in it."""
    from quantity import Quantity
    import numbers
    snap = []
    for r in range(1, 7):
        v = regs.get(r)
        if isinstance(v, Quantity):
            snap.append(proj(v))
        else:
            snap.append(dict(_EMPTY))
    return {'op': 'Snap', 'id': '%s:%d:snap' % (pid, idx), 'snap': snap}


def run_program(world, prog):
    """prog: dict(id=..., ops=[...]).  Returns the list of events (ops with the
    observed outcome added), starting with a Reset event."""
    import decimalfp
    from decimalfp import ROUNDING
    Quantity = world.Quantity
    regs = {}
    mconv = [None]
    pid = prog['id']
    events = [{'op': 'Reset', 'id': pid}]
    decimalfp.set_dflt_rounding_mode(ROUNDING.ROUND_HALF_EVEN)
    try:
        for idx, op in enumerate(prog['ops']):
            ev = dict(op)
            ev['id'] = '%s:%d' % (pid, idx)
            o = op['op']
            res = None
            # an operation that names a register nothing was stored in is not
            # executed and not recorded (the specification never sees it)
            used = [op[f] for f in ('x', 'y') if f in op] + list(op.get('rs', []))
            if any(r not in regs for r in used):
                continue
            try:
                if o == 'SetMode':
                    decimalfp.set_dflt_rounding_mode(ROUNDING[op['m']])
                    events.append(ev)
                    continue
                if o == 'SetConv':
                    from quantity.money import Money, MoneyConverter
                    if op['on'] and mconv[0] is None:
                        c = MoneyConverter(world.units['Z2'])
                        c.update(None, [(world.units['Z3'], mk_amount([5, 4], 'dec'), 1),
                                        (world.units['Z0'], mk_amount([5, 2], 'dec'), 1)])
                        Money.register_converter(c)
                        mconv[0] = c
                    elif not op['on'] and mconv[0] is not None:
                        Money.remove_converter(mconv[0])
                        mconv[0] = None
                    events.append(ev)
                    continue
                if o == 'Lit':
                    if op['k'] == 'n':
                        regs[op['z']] = mk_amount(op['a'], op.get('rep', 'dec'))
                    else:
                        regs[op['z']] = world.units[op['u']]
                    events.append(ev)
                    continue
                if o == 'Make':
                    cls = Quantity if op['cls'] == 'Quantity' else world.types[op['cls']]
                    amt = mk_amount(op['a'], op.get('rep', 'dec'))
                    if op.get('share'):
                        if op['share'] not in regs or not hasattr(regs[op['share']], 'amount'):
                            continue
                        amt = regs[op['share']].amount          # the same amount OBJECT in another quantity
                        ev['a'] = rat_json(amt)
                    if op['u'] == 'NONE':
                        res = cls(amt)
                    else:
                        res = cls(amt, world.units[op['u']])
                elif o == 'Convert':
                    res = regs[op['x']].convert(world.units[op['u']])
                elif o in _BIN:
                    res = _BIN[o](regs[op['x']], regs[op['y']])
                elif o == 'Neg':
                    res = -regs[op['x']]
                elif o == 'Abs':
                    res = abs(regs[op['x']])
                elif o == 'Clone':
                    import copy
                    q = regs[op['x']]
                    c1, c2 = copy.copy(q), copy.deepcopy(q)
                    if type(c1) is type(q) and type(c2) is type(q) and c1.unit is q.unit and c2.unit is q.unit \
                            and c1.amount == q.amount and c2.amount == q.amount and c1 == q and c2 == q \
                            and copy.copy(q.unit) is q.unit and copy.deepcopy(q.unit) is q.unit:
                        res = c2
                    else:
                        res = 'copy-differs'
                elif o == 'Cmp':
                    res = _CMP[op['c']](regs[op['x']], regs[op['y']])
                elif o == 'Pow':
                    res = regs[op['x']] ** op['n']
                elif o == 'Quantize':
                    rm = None if op['rm'] == 'NONE' else ROUNDING[op['rm']]
                    if rm is None and op.get('kw', True):
                        res = regs[op['x']].quantize(regs[op['y']])    # argument omitted
                    elif op.get('kw', True):
                        res = regs[op['x']].quantize(regs[op['y']], rounding=rm)
                    else:
                        res = regs[op['x']].quantize(regs[op['y']], rm)
                elif o == 'Round':
                    res = round(regs[op['x']], op['n'])
                elif o == 'Alloc':
                    q = regs[op['x']]
                    before = (q.amount, q.unit)
                    ratios = [regs[r] for r in op['rs']]
                    portions, rem = q.allocate(ratios, op['disp'])
                    shape = (len(portions) == len(ratios)
                             and all(type(p) is type(q) and p.unit is q.unit for p in portions)
                             and type(rem) is type(q) and rem.unit is q.unit
                             and q.amount == before[0] and q.unit is before[1]
                             and not any(isinstance(p.amount, float) for p in portions))
                    ev['shape'] = bool(shape)
                    ev['ps'] = [rat_json(p.amount) for p in portions]
                    ev['rem'] = rat_json(rem.amount)
                    ev['zs'] = list(op.get('zs', []))[:len(portions)]
                    for zreg, portion in zip(ev['zs'], portions):
                        regs[zreg] = portion               # the very objects allocate() returned
                    events.append(ev)
                    continue
                elif o == 'Sum':
                    res = world.quantity.sum([regs[r] for r in op['rs']])
                elif o == 'Sort':
                    items = [regs[r] for r in op['rs']]
                    order = sorted(range(len(items)), key=lambda j: items[j])
                    ev['perm'] = [j + 1 for j in order]
                    ev['exc'] = ''
                    events.append(ev)
                    continue
                elif o == 'HashEq':
                    x, y = regs[op['x']], regs[op['y']]
                    eq = bool(x == y)
                    try:
                        heq = hash(x) == hash(y)
                        seteq = len({x, y}) == 1
                    except TypeError:
                        heq = seteq = False
                    ev['eq'] = eq
                    ev['heq'] = bool(heq and (seteq or not eq))
                    events.append(ev)
                    continue
                else:
                    raise RuntimeError('unknown op ' + o)
            except Exception as exc:      # the outcome of the call is an exception
                if isinstance(exc, RuntimeError) and 'unknown op' in str(exc):
                    raise
                if o in ('Alloc', 'HashEq', 'Sort'):
                    ev['perm'] = []
                    ev['shape'] = False
                    ev['zs'] = []
                    ev['ps'] = []
                    ev['rem'] = [0, 1]
                    ev['eq'] = False
                    ev['heq'] = False
                    ev['exc'] = type(exc).__name__
                    events.append(ev)
                    continue
                res = exc
            if res is NotImplemented:
                res = TypeError('NotImplemented')
            ev['res'] = proj(res)
            if 'z' in op and not isinstance(res, BaseException) and not isinstance(res, bool):
                if isinstance(res, tuple):
                    if len(res) == 2 and res[1] is None:
                        regs[op['z']] = res[0]
                    else:
                        regs.pop(op['z'], None)
                else:
                    regs[op['z']] = res
            events.append(ev)
            if idx % 7 == 6 or idx == len(prog['ops']) - 1:
                events.append(snap_event(pid, idx, regs))
    finally:
        decimalfp.set_dflt_rounding_mode(ROUNDING.ROUND_HALF_EVEN)
        if mconv[0] is not None:
            from quantity.money import Money
            try:
                Money.remove_converter(mconv[0])
            except Exception:
                pass
    return events
