"""Adapter for RateTable.tla: a real MoneyConverter, all spellings of validity
periods, every lookup compared after every step."""
import datetime
import re
from fractions import Fraction

from adapters.calc import mk_amount

DATES = dict(d1=(2020, 1, 1), d2=(2020, 1, 15), d3=(2020, 2, 1), d4=(2020, 12, 31), d5=(2021, 1, 15), d6=(2021, 2, 1))
_LABEL = re.compile(r'^(\w+)\((.*)\)$')


def spelling_obj(s):
    f, y, m, d = s['form'], s['y'], s['m'], s['d']
    if f == 'none':
        return None
    if f == 'int':
        return y
    if f == 'str_y':
        return '%04d' % y
    if f == 'str_ybad':
        return '20x0'
    if f == 'tuple':
        return (y, m)
    if f == 'tuple_str':
        return (str(y), str(m))
    if f == 'str_ym':
        return '%04d-%02d' % (y, m)
    if f == 'date':
        return datetime.date(y, m, d)
    if f == 'str_ymd':
        return '%04d-%02d-%02d' % (y, m, d)
    if f == 'str_4parts':
        return '2020-1-1-1'
    if f == 'float':
        return 2020.5
    raise ValueError(f)


class RateTableAdapter:
    def __init__(self, spellings, speclists):
        from quantity.money import Money, MoneyConverter
        self.Money = Money
        self.cur = dict(B=Money.new_unit('BBB', 'base', 2), X=Money.new_unit('XXX', 'x', 2),
                        Y=Money.new_unit('YYY', 'y', 2))
        self.today = [datetime.date(*DATES['d2'])]
        self.conv = MoneyConverter(self.cur['B'], get_dflt_effective_date=lambda: self.today[0])
        import decimalfp
        from decimalfp import ROUNDING
        self.mode = ROUNDING.ROUND_HALF_UP            # a non-default mode: must survive every call
        decimalfp.set_dflt_rounding_mode(self.mode)
        self.known = sorted(u.symbol for u in Money.units())
        self.spellings = spellings
        self.speclists = speclists
        self.k = 0

    def nontrivial(self, dst, label):
        return True

    def step(self, src, dst, label):
        from quantity import UnitConversionError
        o = dst['out']
        act = {'update': 'Update', 'settoday': 'SetToday'}[o['act']]
        args = [o['a'], o['b']]
        devs = []
        if act == 'Update':
            sp, sl = args
            specs = []
            for j, (c, amt, mult) in enumerate(self.speclists[sl]):
                self.k += 1
                rep = ['dec', 'frac', 'int'][self.k % 3]
                a = mk_amount(amt, rep if not (rep == 'int' and amt[1] != 1) else 'dec')
                specs.append((self.cur[c] if c != 'CHFs' else 'CHF', a, mult))
            try:
                self.conv.update(spelling_obj(self.spellings[sp]), specs)
                ok = True
                note = ''
            except Exception as exc:
                ok = False
                note = '%s: %s' % (type(exc).__name__, str(exc)[:60])
            if ok != dst['out']['ok']:
                devs.append(dict(sig='RateTable:Update:%s:%s' % ('rejected' if not ok else 'accepted', self.spellings[sp]['form'] if dst['out']['ok'] else 'invalid'),
                                 what='update(%r, %s): library %s, specification %s' % (
                                     spelling_obj(self.spellings[sp]), sl, ('raised ' + note) if not ok else 'accepted it',
                                     'accepts' if dst['out']['ok'] else 'rejects (nothing changes)')))
        elif act == 'SetToday':
            self.today[0] = datetime.date(*DATES[args[0]])
        else:
            raise RuntimeError('unknown action ' + act)
        # nothing outside the converter changes, whatever the outcome: the currencies known to Money, the configured
        # default rounding mode
        import decimalfp
        known = sorted(u.symbol for u in self.Money.units())
        if known != self.known:
            devs.append(dict(sig='RateTable:%s:currencies' % act, what='currencies known to Money changed from %s to %s' % (self.known, known)))
        if decimalfp.get_dflt_rounding_mode() != self.mode:
            devs.append(dict(sig='RateTable:%s:rounding-mode' % act, what='default rounding mode is now %s (was %s)' % (
                decimalfp.get_dflt_rounding_mode(), self.mode)))
            decimalfp.set_dflt_rounding_mode(self.mode)
        # every lookup
        tag = 'after-rejected' if not dst['out']['ok'] else 'lookup'
        bad = 0
        for (a, b, did), want in dst['obs'].items():
            dt = None if did == 'dflt' else datetime.date(*DATES[did])
            want = Fraction(want[0], want[1]) if want[1] else None
            try:
                r = self.conv.get_rate(self.cur[a], self.cur[b], dt) if dt is not None else \
                    self.conv.get_rate(self.cur[a], self.cur[b])
                if r is None:
                    got = None
                else:
                    got = Fraction(r.rate)
                    if r.unit_currency is not self.cur[a] or r.term_currency is not self.cur[b]:
                        got = 'direction %s->%s' % (r.unit_currency, r.term_currency)
            except Exception as exc:
                got = 'raises %s' % type(exc).__name__
            if isinstance(got, Fraction) and want is not None and got != want:
                # the exact rate has more than six decimals: the reported rate is its C09 normal form (unit
                # multiple the smallest power of ten that lifts the term amount to >= 0.1, six decimals, half-even)
                k = 0
                while want * 10 ** k < Fraction(1, 10):
                    k += 1
                stored = Fraction(round(want * 10 ** k, 6)) / 10 ** k
                if got == stored and stored != want:
                    want = stored
            if got != want:
                bad += 1
                if bad <= 3:
                    devs.append(dict(sig='RateTable:%s:get_rate%s' % (tag, ':identity' if a == b else ''),
                                     what='get_rate(%s, %s, %s) = %s, specification: %s' % (a, b, did, got, want)))
                continue
            # calling the converter multiplies by exactly the reported rate
            if a != b or want is not None:
                try:
                    amt = self.conv(self.Money(3, self.cur[a]), self.cur[b], dt) if dt is not None else \
                        self.conv(self.Money(3, self.cur[a]), self.cur[b])
                    got2 = Fraction(amt)
                except UnitConversionError:
                    got2 = None
                except Exception as exc:
                    got2 = 'raises %s' % type(exc).__name__
                want2 = None if want is None else 3 * want
                if got2 != want2:
                    bad += 1
                    if bad <= 3:
                        devs.append(dict(sig='RateTable:%s:call' % tag,
                                         what='converter(3 %s -> %s, %s) = %s, specification: %s' % (a, b, did, got2, want2)))
        return devs


def make(spellings, speclists):
    return RateTableAdapter(spellings, speclists)
