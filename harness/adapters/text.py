"""Adapter for Text.tla: construction from numbers / strings, str(), format(), re-parsing."""
import decimal
from fractions import Fraction

from adapters.catalogue import actual, alias
from adapters.money import qjson


def codes(s):
    return [ord(c) for c in s]


def mk_number(c):
    from decimalfp import Decimal
    k = c['kind']
    f = Fraction(c['n'], c['d'])
    if k == 'int':
        return int(f)
    if k == 'frac':
        return f
    if k == 'float':
        return c['n'] / c['d'] if 'fl' not in c else float.fromhex(c['fl'])
    if k == 'stddec':
        with decimal.localcontext() as ctx:
            ctx.prec = 400
            return decimal.Decimal(c['n']) / decimal.Decimal(c['d'])
    if k == 'dec':
        with decimal.localcontext() as ctx:
            ctx.prec = 400
            return Decimal(format(decimal.Decimal(c['n']) / decimal.Decimal(c['d']), 'f'))
    raise ValueError(k)


def obs_q(q):
    from quantity import Quantity
    o = dict(st='ok', mro=[], type='', u='', a=qjson(0), inexact=False)
    if not isinstance(q, Quantity):
        o['st'] = 'other'
        return o
    o['type'] = type(q).__name__
    o['u'] = alias(q.unit.symbol)
    if isinstance(q.amount, float):
        o['inexact'] = True
    else:
        o['a'] = qjson(q.amount)
    return o


def err(exc):
    return dict(st='err', mro=[k.__name__ for k in type(exc).__mro__], type='', u='', a=qjson(0), inexact=False)


def run_case(c):
    import quantity.predefined as P
    from quantity import Quantity, Unit
    ev = dict(c)
    op = c['op']
    try:
        if op in ('num', 'roundtrip'):
            u = Unit(actual(c['u']))
            cls = Quantity if c.get('generic') else u.qty_cls
            try:
                q = cls(mk_number(c), u)
            except Exception as exc:
                ev['obs'] = err(exc)
                ev['codes'] = []
                ev['long'] = False
                return ev
            if op == 'num':
                ev['obs'] = obs_q(q)
            else:
                text = str(q)
                ev['long'] = len(text) > 300
                ev['codes'] = codes(text) if not ev['long'] else []
                ev['text'] = text[:320]
                ev['a'] = qjson(q.amount) if not isinstance(q.amount, float) else qjson(0)
                o = dict(fmt_eq=(format(q) == text and '{}'.format(q) == text and format(q, '') == text),
                         generic_same=False, typed_same=False)
                try:
                    g = Quantity(text)
                    o['generic_same'] = type(g) is type(q) and g.unit is q.unit and g.amount == q.amount and \
                        Fraction(g.amount) == Fraction(q.amount)
                    t = type(q)(text)
                    o['typed_same'] = type(t) is type(q) and t.unit is q.unit and Fraction(t.amount) == Fraction(q.amount)
                except Exception as exc:
                    o['exc'] = type(exc).__name__
                ev['obs'] = o
        elif op == 'str':
            text = ''.join(chr(x) for x in c['codes'])
            cls = Quantity if c['cls'] == 'Quantity' else (getattr(P, c['cls'], None) or Unit('bq').qty_cls)
            try:
                ev['obs'] = obs_q(cls(text))
            except Exception as exc:
                ev['obs'] = err(exc)
        elif op == 'dupsym':
            from quantity import QuantityMeta
            u = Unit(actual(c['u']))
            cls = QuantityMeta('Dup%s' % c['id'].split(':')[-1], (Quantity,), {}, ref_unit_symbol='dupref%s' % c['id'].split(':')[-1])
            o = dict(rejected=False, roundtrip=False)
            try:
                if c['how'] == 'scaled':
                    cls.new_unit(u.symbol, None, 3 * cls.ref_unit)
                else:
                    cls.new_unit(u.symbol)
            except Exception:
                o['rejected'] = True
            q = u.qty_cls(5, u)
            try:
                g, t = Quantity(str(q)), u.qty_cls(str(q))
                o['roundtrip'] = type(g) is type(q) and g.unit is u and type(t) is type(q) and t.unit is u and Unit(u.symbol) is u
            except Exception:
                o['roundtrip'] = False
            ev['obs'] = o
        elif op == 'gensym':
            from quantity import QuantityMeta
            o = dict(st='err', codes=[], registered=False)
            try:
                bases = {}
                for k, it in enumerate(c['items']):
                    sym = ''.join(chr(x) for x in it['codes'])
                    if sym not in bases:
                        bases[sym] = QuantityMeta('GB%d' % len(bases), (Quantity,), {}, ref_unit_symbol=sym)
                term = None
                for it in c['items']:
                    part = bases[''.join(chr(x) for x in it['codes'])] ** it['e']
                    term = part if term is None else term * part
                if c['how'] == 'ref':
                    cls = QuantityMeta('GD', (Quantity,), {}, define_as=term)
                    u = cls.ref_unit
                else:
                    cls = QuantityMeta('GD', (Quantity,), {}, define_as=term, ref_unit_symbol='gdref')
                    args = [b.ref_unit for b in (bases[''.join(chr(x) for x in it['codes'])] for it in c['items'])]
                    u = cls.derive_unit_from(*args) if False else None
                    u = cls.ref_unit
                o.update(st='ok', codes=codes(u.symbol), registered=(Unit(u.symbol) is u and Quantity('1 ' + u.symbol).unit is u))
            except Exception as exc:
                o['exc'] = '%s: %s' % (type(exc).__name__, str(exc)[:80])
            ev['obs'] = o
        elif op == 'latesym':
            # a symbol is unknown (text with it is rejected), then a unit is declared under it: from then on the text parses
            from quantity import QuantityError
            from adapters.calc import mk_amount
            sym = c['sym']
            o = dict(first_rejected=False, parses=False, typed=False, strunit=False)
            try:
                Quantity('3 ' + sym)
            except QuantityError:
                o['first_rejected'] = True
            bq = Unit('bq')
            cls = bq.qty_cls
            try:
                u = cls.new_unit(sym, None, mk_amount([2, 1], 'dec') * bq)
                o['parses'] = Quantity('3 ' + sym).unit is u and Quantity('3 ' + sym).amount == 3
                o['typed'] = cls('3 ' + sym).unit is u
                o['strunit'] = Quantity('3 ' + sym, bq).amount == 6 and Quantity('3 ' + sym, bq).unit is bq
            except Exception as exc:
                o['exc'] = type(exc).__name__
            ev['obs'] = o
        elif op == 'strunit':
            text = ''.join(chr(x) for x in c['codes'])
            try:
                ev['obs'] = obs_q(Quantity(text, Unit(actual(c['to']))))
            except Exception as exc:
                ev['obs'] = err(exc)
    except Exception as exc:
        import traceback
        ev['exc'] = ''.join(traceback.format_exception(type(exc), exc, exc.__traceback__))[-500:]
    return ev
