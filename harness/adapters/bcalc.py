"""Driver-side adapter for BCalc.tla: builds operands over the predefined catalogue, performs one
operation with the tracer installed and returns the recorded event."""
from fractions import Fraction

import qtrace
from adapters.calc import mk_amount
from adapters.catalogue import actual


def unq(q):
    n = sum(l * 10000 ** i for i, l in enumerate(q['n']))
    d = sum(l * 10000 ** i for i, l in enumerate(q['d']))
    return Fraction(q['s'] * n, d or 1)


def mk(o):
    """o: dict(k='q'|'u'|'n', u=alias, a=[n, d], rep=...)"""
    from quantity import Unit
    if o['k'] == 'n':
        return mk_amount(o['a'], o.get('rep', 'dec'))
    u = Unit(actual(o['u']))
    if o['k'] == 'u':
        return u
    return u.qty_cls(mk_amount(o['a'], o.get('rep', 'dec')), u)


def run_case(c):
    import operator
    import decimalfp
    from decimalfp import ROUNDING
    from quantity import Unit
    qtrace.install()
    qtrace.drain()
    decimalfp.set_dflt_rounding_mode(ROUNDING[c.get('mode', 'ROUND_HALF_EVEN')])
    try:
        x = mk(c['x'])
        y = mk(c['y']) if 'y' in c else None
        qtrace.drain()                       # construction events are not part of the case
        op = c['op']
        try:
            if op in ('AllocConvert', 'AllocCmp', 'AllocDiv'):
                # a portion returned by allocate() (possibly adjusted by the dispersal of the rounding error) is a
                # quantity like any other: converting / comparing / dividing it goes by ITS amount
                portions, rem = x.allocate([mk_amount(r, 'frac') for r in c['ratios']], True)
                part = (portions + [rem])[c['idx'] % (len(portions) + 1)]
                qtrace.drain()
                if op == 'AllocConvert':
                    part.convert(Unit(actual(c['to'])))
                elif op == 'AllocCmp':
                    part == y
                else:
                    part / Unit(actual(c['to']))
            elif op == 'Convert':
                x.convert(Unit(actual(c['to'])))
            elif op == 'Cmp':
                {'lt': operator.lt, 'le': operator.le, 'gt': operator.gt, 'ge': operator.ge, 'eq': operator.eq}[c['c']](x, y)
            elif op == 'Pow':
                x ** c['n']
            elif op == 'Neg':
                -x
            elif op == 'Abs':
                abs(x)
            elif op == 'Quantize':
                rm = c.get('rm')
                if rm:
                    x.quantize(y, ROUNDING[rm])
                else:
                    x.quantize(y)
            else:
                {'Add': operator.add, 'Sub': operator.sub, 'Mul': operator.mul, 'Div': operator.truediv}[op](x, y)
        except Exception:
            pass
        evs = qtrace.drain()
    finally:
        decimalfp.set_dflt_rounding_mode(ROUNDING.ROUND_HALF_EVEN)
    return evs
