"""Adapter for Units.tla: executes menu items (declarations, unit operations)
against the real library and compares the observable directory state and the
outcome with the successor state TLC computed."""
import re
from fractions import Fraction

import tlaparse
from adapters.calc import mk_amount

_LABEL = re.compile(r'^(\w+)\((.*)\)$', re.S)


def parse_label(label):
    m = _LABEL.match(label.strip())
    if not m:
        raise ValueError('label: %r' % label)
    return m.group(1), tlaparse.parse(m.group(2))


def frac(x):
    return Fraction(x[0], x[1])


class UnitsAdapter:
    def __init__(self, items):
        import quantity
        from quantity import Quantity, QuantityMeta, Unit
        from quantity.term import Term
        self.q = quantity
        self.Quantity, self.QuantityMeta, self.Unit, self.Term = Quantity, QuantityMeta, Unit, Term
        self.items = {i['id']: i for i in items}
        self.types = {}          # spec type name -> class object (accepted declarations)
        self.alias = {}          # spec symbol -> actual symbol (generated reference symbols)
        syms = set()
        for i in items:
            if i['act'] in ('scaled', 'plain', 'term', 'derive') and i['sym'] not in ('', '#5', 'NONE'):
                syms.add(i['sym'])
            if i['act'] in ('base', 'derived') and i['ref'] not in ('NONE', 'GEN'):
                syms.add(i['ref'])
        self.universe = sorted(syms)
        self.gen_items = [i for i in items if i['act'] == 'derived' and i['ref'] == 'GEN']

    # ---- helpers ----------------------------------------------------------
    def actual(self, sym):
        return self.alias.get(sym, sym)

    def unit(self, sym):
        return self.Unit(self.actual(sym))

    def sym_arg(self, s):
        if s == '#5':
            return 5
        return s

    def gen_candidate(self, it):
        """The symbol the library would generate for a derived type's reference unit."""
        try:
            items = []
            for tn, e in it['def']:
                cls = self.types[tn]
                if cls.ref_unit is None:
                    return None
                items.append((cls.ref_unit, e))
            return str(self.Term(items))
        except Exception:
            return None

    # ---- execution --------------------------------------------------------
    def execute(self, it):
        """Returns ('accepted', obj) | ('rejected', exc) | ('op', result-or-exc)."""
        act = it['act']
        Q, QM = self.Quantity, self.QuantityMeta
        try:
            if act == 'base':
                kw = {}
                if it['ref'] != 'NONE':
                    kw['ref_unit_symbol'] = it['ref']
                if tuple(it['f']) != (0, 0):
                    kw['quantum'] = frac(it['f'])
                cls = QM(it['name'], (Q,), {}, **kw)
                self.types[it['name']] = cls
                return 'accepted', cls
            if act == 'baddef':
                QM(it['name'], (Q,), {}, define_as=self.Term([(self.unit(it['of']), 1)]), ref_unit_symbol=it['ref'])
                return 'accepted', None
            if act == 'derived':
                term = None
                for tn, e in it['def']:
                    part = self.types[tn] ** e
                    term = part if term is None else term * part
                kw = {'define_as': term}
                if it['ref'] not in ('NONE', 'GEN'):
                    kw['ref_unit_symbol'] = it['ref']
                cls = QM(it['name'], (Q,), {}, **kw)
                self.types[it['name']] = cls
                if it['ref'] == 'GEN' and cls.ref_unit is not None:
                    self.alias['gen:' + it['name']] = cls.ref_unit.symbol
                return 'accepted', cls
            cls = self.types.get(it['typ'])
            if act == 'scaled':
                f = frac(it['f'])
                rep = 'frac' if f.denominator not in (1, 10, 100, 1000) else 'dec'
                u = cls.new_unit(self.sym_arg(it['sym']), None, mk_amount(it['f'], rep) * self.unit(it['of']))
                return 'accepted', u
            if act == 'plain':
                return 'accepted', cls.new_unit(self.sym_arg(it['sym']))
            if act == 'term':
                items = [(self.unit(s), e) for s, e in it['items']]
                if tuple(it['f']) != (0, 0):
                    items = [(int(frac(it['f'])), it['n'])] + items        # a plain Python int as numeric item
                t = self.Term(items)
                return 'accepted', cls.new_unit(self.sym_arg(it['sym']), None, t)
            if act == 'derive':
                return 'accepted', cls.derive_unit_from(*[self.unit(s) for s in it['items']],
                                                        symbol=self.sym_arg(it['sym']))
        except Exception as exc:
            return 'rejected', exc
        try:
            if act == 'mul':
                return 'op', self.unit(it['sym']) * self.unit(it['of'])
            if act == 'div':
                return 'op', self.unit(it['sym']) / self.unit(it['of'])
            if act == 'pow':
                return 'op', self.unit(it['sym']) ** it['n']
        except Exception as exc:
            return 'op', exc
        raise ValueError('unknown act %r' % act)

    # ---- comparison -------------------------------------------------------
    def nontrivial(self, dst, label):
        return dst['out']['kind'] in ('rejected', 'op') or True

    def step(self, src, dst, label):
        _, it = parse_label(label)
        kind, obj = self.execute(it)
        devs = []
        exp = dst['out']
        sunits = {u['sym']: u for u in dst['units']}
        act = it['act']
        if exp['kind'] in ('accepted', 'rejected'):
            if kind != exp['kind']:
                devs.append(dict(sig='Units:%s:%s-but-spec-%s' % (act, kind, exp['kind']),
                                 what='%s %s: library %s (%s), specification: %s' % (
                                     act, it['id'], kind, _brief(obj), exp['kind'])))
        else:
            d = self.compare_op(it, obj, exp['r'], sunits)
            if d:
                devs.append(d)
            # the same operation on quantities of amount 1 (quantity op quantity): the same answer
            if act in ('mul', 'div') and not d:
                stypes = {t['name']: t for t in dst['types']}
                us = [sunits.get(it['sym']), sunits.get(it['of'])]
                # (not for two units of one type without reference unit: whether QUANTITIES in such units divide by the
                # ratio of their scales like the units themselves do, or are not convertible, is left open)
                noref_pair = (us[0] is not None and us[1] is not None and us[0]['typ'] == us[1]['typ']
                              and stypes[us[0]['typ']]['ref'] == 'NONE')
                if not noref_pair and all(u is not None and tuple(stypes[u['typ']].get('q', (0, 0))) == (0, 0) for u in us):
                    try:
                        q1, q2 = self.Quantity(1, self.unit(it['sym'])), self.Quantity(1, self.unit(it['of']))
                        qobj = q1 * q2 if act == 'mul' else q1 / q2
                    except Exception as exc:
                        qobj = exc
                    d2 = self.compare_op(it, qobj, exp['r'], sunits)
                    if d2:
                        d2 = dict(d2, sig=d2['sig'] + ':quantities', what='(quantity operands) ' + d2['what'])
                        devs.append(d2)
        devs.extend(self.compare_directory(dst, sunits, act, exp['kind']))
        return devs

    def compare_op(self, it, obj, r, sunits):
        from quantity import Quantity, UndefinedResultError, UnitConversionError
        st = r['st']
        desc = '%s(%s,%s)' % (it['act'], it['sym'], it['of'] if it['act'] != 'pow' else it['n'])
        sig = 'Units:%s:' % it['act']
        if st == 'undef':
            if isinstance(obj, UndefinedResultError):
                return None
            return dict(sig=sig + 'expected-undefined', what='%s: specification: UndefinedResultError, library: %s' % (desc, _brief(obj)))
        if st == 'noconv':
            if isinstance(obj, UnitConversionError):
                return None
            return dict(sig=sig + 'expected-noconv', what='%s: specification: UnitConversionError, library: %s' % (desc, _brief(obj)))
        if isinstance(obj, BaseException):
            return dict(sig=sig + 'raised-%s' % type(obj).__name__,
                        what='%s: specification: %s, library raised %s' % (desc, _brief_r(r), _brief(obj)))
        # observed value
        if isinstance(obj, tuple):
            amnt, unit = obj
        elif isinstance(obj, Quantity):
            amnt, unit = obj.amount, obj.unit
        else:
            amnt, unit = obj, None
        if isinstance(amnt, float):
            return dict(sig=sig + 'float', what='%s: float amount %r' % (desc, amnt))
        if st == 'num':
            if unit is None and Fraction(amnt) == frac(r['f']):
                return None
            return dict(sig=sig + 'value', what='%s: specification: plain number %s, library: %s' % (desc, frac(r['f']), _brief(obj)))
        # st == 'ok': compare type and exact value in base units (not the unit chosen)
        want = sunits[r['u']]
        if unit is None:
            return dict(sig=sig + 'value', what='%s: specification: %s, library: plain number %s' % (desc, _brief_r(r), amnt))
        got = None
        for s, u in sunits.items():
            if self.actual(s) == unit.symbol:
                got = u
        if got is None:
            return dict(sig=sig + 'unknown-unit', what='%s: library returned unit %r unknown to the specification' % (desc, unit.symbol))
        v_got = Fraction(amnt) * frac(got['num'])
        v_want = frac(r['f']) * frac(want['num'])
        if got['vec'] != want['vec'] or got['typ'] != want['typ'] or v_got != v_want or unit.qty_cls is not self.types.get(got['typ']):
            return dict(sig=sig + 'value', what='%s: specification: %s (value %s %s), library: %s %s (value %s)' % (
                desc, _brief_r(r), v_want, want['typ'], amnt, unit.symbol, v_got))
        return None

    def compare_directory(self, dst, sunits, act, outkind):
        devs = []
        Unit, Q = self.Unit, self.Quantity
        from quantity import QuantityError
        stypes = {t['name']: t for t in dst['types']}
        tag = 'after-rejected' if outkind == 'rejected' else 'after-' + outkind

        def dev(kind, what):
            devs.append(dict(sig='Units:%s:%s:%s' % (act, tag, kind), what=what))
        probes = list(self.universe)
        for gi in self.gen_items:
            name = 'gen:' + gi['name']
            if name in self.alias:
                probes.append(name)
            else:
                c = self.gen_candidate(gi)
                if c and c not in [self.actual(s) for s in sunits]:
                    probes.append('?' + c)
        for s in probes:
            expected = s in sunits
            asym = s[1:] if s.startswith('?') else self.actual(s)
            try:
                u = Unit(asym)
            except ValueError:
                u = None
            if not expected:
                if u is not None:
                    dev('symbol-registered', 'Unit(%r) exists (owner %s) but the specification knows no such unit' % (
                        asym, u.qty_cls.__name__ if u.qty_cls is not None else None))
                try:
                    q = Q('1 ' + asym)
                    dev('symbol-parses', 'Quantity(%r) yields a %s' % ('1 ' + asym, type(q).__name__))
                except QuantityError:
                    pass
                except Exception as exc:
                    dev('parse-raises', 'Quantity(%r) raises %s' % ('1 ' + asym, type(exc).__name__))
                continue
            su = sunits[s]
            if u is None:
                dev('symbol-missing', 'unit %r is declared in the specification but Unit() does not find it' % asym)
                continue
            cls = self.types.get(su['typ'])
            if u.qty_cls is not cls:
                dev('owner', 'unit %r belongs to %r, specification: %s' % (asym, u.qty_cls, su['typ']))
                continue
            if Unit(asym) is not u or cls.get_unit_by_symbol(asym) is not u or asym not in cls:
                dev('identity', 'unit %r is not found as the identical object' % asym)
            st = stypes[su['typ']]
            isref = st['ref'] == s
            if bool(u.is_ref_unit()) != isref:
                dev('is-ref', 'unit %r is_ref_unit()=%s, specification: %s' % (asym, u.is_ref_unit(), isref))
            try:
                q = Q('1 ' + asym)
                q2 = Q(3, u)
                if type(q) is not cls or type(q2) is not cls or q.unit is not u:
                    dev('parse-type', 'Quantity(%r) is a %s, specification: %s' % ('1 ' + asym, type(q).__name__, su['typ']))
            except Exception as exc:
                dev('parse-raises', 'Quantity(%r) raises %s' % ('1 ' + asym, type(exc).__name__))
            if tuple(st.get('q', (0, 0))) != (0, 0) and cls is not None:
                want_q = frac(st['q']) / frac(su['num'])
                if cls.quantum != frac(st['q']) or u.quantum != want_q:
                    dev('quantum', 'unit %r has quantum %s, specification: %s' % (asym, u.quantum, want_q))
            if st['ref'] != 'NONE':
                try:
                    ref = Unit(self.actual(st['ref']))
                    # probe amount: 1, or a value on the unit's grid for quantized types
                    amt = Fraction(1) if u.quantum is None else Fraction(u.quantum) * 12
                    sc = Fraction((amt * u).convert(ref).amount) / amt
                    if sc != frac(su['num']):
                        dev('scale', 'unit %r has scale %s, its definition denotes %s' % (asym, sc, frac(su['num'])))
                except Exception as exc:
                    dev('scale-raises', 'converting 1 %s to the reference unit raises %s' % (asym, type(exc).__name__))
        # equality and hash of units (C04 / C19): units of one type compare by their scale (Units.tla UnitEq: with a
        # reference unit equal <=> same type and same scale; without one <=> the identical unit), and equal => same hash
        present = []
        for s, su in sunits.items():
            try:
                present.append((s, su, Unit(self.actual(s))))
            except ValueError:
                pass
        for (s1, su1, u1) in present:
            for (s2, su2, u2) in present:
                got = bool(u1 == u2)
                if su1['typ'] != su2['typ']:
                    want = False
                elif stypes[su1['typ']]['ref'] != 'NONE':
                    want = tuple(su1['num']) == tuple(su2['num'])
                else:
                    # no reference unit, no scale: the properties only ask for a consistent relation (reflexive,
                    # symmetric, != its negation, equal => same hash); which distinct units are equal is left open
                    want = True if s1 == s2 else got
                if got != want or (u1 != u2) == got or bool(u2 == u1) != got:
                    dev('unit-eq', 'Unit(%r) == Unit(%r) is %s, specification: %s' % (u1.symbol, u2.symbol, got, want))
                elif got and (hash(u1) != hash(u2) or len({u1, u2}) != 1):
                    dev('unit-hash', 'Unit(%r) == Unit(%r) but their hashes differ' % (u1.symbol, u2.symbol))
        # quantities in two units of a type WITHOUT reference unit that are built on DIFFERENT base units (p/a, q/a):
        # no common scale, no converter - sums and
        # order comparisons raise UnitConversionError, == is False (C03 / C04), however the units were defined
        from quantity import UnitConversionError
        for (s1, su1, u1) in present:
            for (s2, su2, u2) in present:
                if s1 >= s2 or su1['typ'] != su2['typ'] or stypes[su1['typ']]['ref'] != 'NONE' or u1 == u2:
                    continue
                if su1['vec'] == su2['vec']:
                    continue      # built on the same base units: whether such units convert by their scale is left open
                q1, q2 = Q(3, u1), Q(2, u2)
                for what, f in (('+', lambda: q1 + q2), ('-', lambda: q2 - q1), ('<', lambda: q1 < q2)):
                    try:
                        r = f()
                        dev('noref-arith', '%s %s %s = %r, specification: UnitConversionError (no common scale)' % (q1, what, q2, r))
                    except UnitConversionError:
                        pass
                    except Exception as exc:
                        dev('noref-arith', '%s %s %s raises %s, specification: UnitConversionError' % (q1, what, q2, type(exc).__name__))
                if q1 == q2 or not (q1 != q2):
                    dev('noref-eq', '%s == %s, specification: not equal (no common scale)' % (q1, q2))
        for name, st in stypes.items():
            cls = self.types.get(name)
            if cls is None:
                dev('type-missing', 'type %s accepted by the specification but not created' % name)
                continue
            want = {self.actual(s) for s, u in sunits.items() if u['typ'] == name}
            got = {u.symbol for u in cls.units()}
            if want != got or len(cls.units()) != len(got) or len(cls) != len(got) or set(iter(cls)) != got:
                dev('listing', 'type %s lists %s, specification: %s' % (name, sorted(got), sorted(want)))
            r = cls.ref_unit
            if (r.symbol if r is not None else 'NONE') != self.actual(st['ref']):
                dev('ref-unit', 'type %s ref unit %r, specification: %s' % (name, r, st['ref']))
        for name, cls in self.types.items():
            if name not in stypes:
                # a class object of a rejected declaration never reaches us (the call raised)
                dev('type-extra', 'type %s exists in the library but not in the specification' % name)
        return devs


def _brief(obj):
    if isinstance(obj, BaseException):
        return '%s(%s)' % (type(obj).__name__, str(obj)[:80])
    return repr(obj)[:120]


def _brief_r(r):
    return '%s %s/%s %s' % (r['st'], r['f'][0], r['f'][1], r['u'])


def step_event(ad, it, eid):
    """Execute one menu item on adapter `ad` and describe the outcome for UnitsTrace.tla."""
    from quantity import Quantity, UndefinedResultError, UnitConversionError
    kind, obj = ad.execute(it)
    ev = dict(id=it['id'], eid=eid, kind=kind, res=dict(st='none', f=[0, 0], u='NONE'), syms=[])
    if kind == 'op':
        r = ev['res']
        if isinstance(obj, UndefinedResultError):
            r['st'] = 'undef'
        elif isinstance(obj, UnitConversionError):
            r['st'] = 'noconv'
        elif isinstance(obj, BaseException):
            r['st'] = 'raise:' + type(obj).__name__
        else:
            if isinstance(obj, tuple):
                amnt, unit = obj
            elif isinstance(obj, Quantity):
                amnt, unit = obj.amount, obj.unit
            else:
                amnt, unit = obj, None
            if isinstance(amnt, float):
                r['st'] = 'float'
            else:
                f = Fraction(amnt)
                r['f'] = [f.numerator, f.denominator] if abs(f.numerator) < 2 ** 31 and f.denominator < 2 ** 31 else [0, -2]
                if unit is None:
                    r['st'] = 'num'
                else:
                    r['st'] = 'ok'
                    rev = {v: k2 for k2, v in ad.alias.items()}
                    r['u'] = rev.get(unit.symbol, unit.symbol)
    syms = []
    for s_ in ad.universe + sorted(ad.alias):
        try:
            ad.Unit(ad.actual(s_))
            syms.append(s_)
        except ValueError:
            pass
    ev['syms'] = syms
    return ev
