"""Adapter for Affine.tla: the predefined Temperature type and user-declared
table-converted types."""
import re
from fractions import Fraction

from adapters.calc import mk_amount
from adapters.money import qjson

TALIAS = {'degC': '°C', 'degF': '°F', 'K': 'K'}
_TYPES = {}


def unq(q):
    n = sum(l * 10000 ** i for i, l in enumerate(q['n']))
    d = sum(l * 10000 ** i for i, l in enumerate(q['d']))
    return Fraction(q['s'] * n, d or 1)


def user_type(key, rows, form, rows2=None):
    """A fresh quantity type with units x, y, z and a TableConverter over `rows` (and a second one, registered
    later, over `rows2`)."""
    from quantity import Quantity, QuantityMeta, TableConverter
    if key in _TYPES:
        return _TYPES[key]
    n = len(_TYPES)
    cls = QuantityMeta('TT%d' % n, (Quantity,), {})
    units = {s: cls.new_unit('%s_%d' % (s, n)) for s in ('x', 'y', 'z')}
    # units DEFINED through others in a type that converts by table only: no table row, no conversion
    units['mx'] = cls.new_unit('mx_%d' % n, None, mk_amount([1, 1000], 'dec') * units['x'])
    units['my'] = cls.new_unit('my_%d' % n, None, mk_amount([1, 1000], 'dec') * units['y'])
    for k, rws in enumerate([rows] + ([rows2] if rows2 is not None else [])):
        spec = [(units[r['f']], units[r['t']], mk_amount([unq(r['fac']).numerator, unq(r['fac']).denominator], r.get('frep', 'frac')),
                 mk_amount([unq(r['off']).numerator, unq(r['off']).denominator], r.get('orep', 'dec'))) for r in rws]
        fm = form if k == 0 else 'list'
        if fm == 'map':
            conv = TableConverter({(a, b): (f, o) for a, b, f, o in spec})
        elif fm == 'iter':
            conv = TableConverter(iter(spec))
        else:
            conv = TableConverter(spec)
        cls.register_converter(conv)
    _TYPES[key] = (cls, units)
    return _TYPES[key]


def run_case(c):
    import operator
    import quantity.predefined as P
    from quantity import Unit
    ev = dict(c)
    try:
        if c['table'] == 'temp':
            cls = P.Temperature
            units = {k: Unit(v) for k, v in TALIAS.items()}
        else:
            cls, units = user_type(c['tkey'], c['rows'], c.get('form', 'list'),
                                   c.get('rows2') if c['op'] != 'treplace' else None)
        if c['op'] == 'tdoc':
            return ev
        if c['op'] == 'treplace':
            # convert a pair, REPLACE the table converter by another one (same number of converters), convert again:
            # the second answer is the new table's (or UnitConversionError if the new table lacks the pair)
            from quantity import TableConverter, UnitConversionError
            conv1 = list(cls.registered_converters())[0]
            f = unq(c['a'])
            x = cls(mk_amount([f.numerator, f.denominator], 'frac'), units[c['u']])
            o = dict(st='err', mro=[], a=qjson(0), u='', sametype=False, b=False)
            try:
                x.convert(units[c['v']])
                x == cls(1, units[c['v']])
            except Exception:
                pass
            spec2 = [(units[r['f']], units[r['t']], mk_amount([unq(r['fac']).numerator, unq(r['fac']).denominator], 'frac'),
                      mk_amount([unq(r['off']).numerator, unq(r['off']).denominator], 'frac')) for r in c['rows2']]
            cls.remove_converter(conv1)
            cls.register_converter(TableConverter(spec2))
            try:
                r = x.convert(units[c['v']])
                name = [k for k, v in units.items() if v is r.unit]
                o.update(st='ok', a=qjson(r.amount), u=name[0] if name else '?', sametype=type(r) is cls)
            except Exception as exc:
                o.update(st='err', mro=[k.__name__ for k in type(exc).__mro__])
            ev['obs'] = o
            return ev

        def mk(aq, u, rep):
            f = unq(aq)
            return cls(mk_amount([f.numerator, f.denominator], rep), units[u])
        o = dict(st='err', mro=[], a=qjson(0), u='', sametype=False, b=False)
        try:
            x = mk(c['a'], c['u'], c.get('rep', 'dec'))
            if c['op'] == 'tconv' and c.get('how') == 'str':
                # the same conversion spelt Quantity("<amount> <symbol>", unit)
                f = unq(c['a'])
                text = '%s %s' % (f.numerator if f.denominator == 1 else '%d/%d' % (f.numerator, f.denominator), units[c['u']].symbol)
                r = cls(text, units[c['v']])
            elif c['op'] == 'tconv':
                r = x.convert(units[c['v']])
            else:
                y = mk(c['b'], c['v'], c.get('rep2', 'frac'))
                if c['op'] == 'tcmp':
                    r = {'lt': operator.lt, 'le': operator.le, 'gt': operator.gt, 'ge': operator.ge,
                         'eq': operator.eq, 'ne': operator.ne}[c['c']](x, y)
                else:
                    r = (x - y) if c['sub'] else (x + y)
            if isinstance(r, bool):
                o.update(st='bool', b=r)
            elif isinstance(r.amount, float):
                o.update(st='inexact')
            else:
                name = [k for k, v in units.items() if v is r.unit]
                o.update(st='ok', a=qjson(r.amount), u=name[0] if name else '?', sametype=type(r) is cls)
        except Exception as exc:
            o.update(st='err', mro=[k.__name__ for k in type(exc).__mro__])
        ev['obs'] = o
    except Exception as exc:
        import traceback
        ev['exc'] = ''.join(traceback.format_exception(type(exc), exc, exc.__traceback__))[-500:]
    return ev


_DOC = re.compile(r'(-?[0-9][0-9.,]*)\s*(°C|°F|K)')


def doc_equivalences():
    """'a u = b v = ...' rows of the temperature table in quantity.predefined.__doc__."""
    import quantity.predefined as P
    out = []
    for line in P.__doc__.splitlines():
        if line.count('=') >= 2 and ('°C' in line and 'K' in line) and '[' not in line:
            vals = _DOC.findall(line.split('  ', 1)[-1] if False else line)
            vals = [(v.replace(',', '.'), u) for v, u in vals]
            for (a, u), (b, v) in zip(vals, vals[1:]):
                out.append((a, u, b, v, line.strip()))
    return out
