"""Adapter for Catalogue.tla: observations of quantity.predefined as sign +
prime-exponent vectors."""
import numbers
import re
from fractions import Fraction

PRIMES = [2, 3, 5, 7, 11, 97, 127, 6073]
ALIAS = {'um': 'µm', 'us': 'µs', 'degC': '°C', 'degF': '°F', 'm/s2': 'm/s²', 'mps2': 'mps²'}
for _b in ('m', 'mm', 'cm', 'dm', 'km', 'in', 'ft', 'yd', 'mi'):
    ALIAS[_b + '2'] = _b + '²'
    ALIAS[_b + '3'] = _b + '³'
RALIAS = {v: k for k, v in ALIAS.items()}


def actual(s):
    return ALIAS.get(s, s)


def alias(sym):
    return RALIAS.get(sym, sym)


def vec(x):
    """Fraction -> dict(sg, ex, inmodel)."""
    f = Fraction(x)
    if f == 0:
        return dict(sg=1, ex=[0] * len(PRIMES), inmodel=False)
    sg = -1 if f < 0 else 1
    n, d = abs(f.numerator), f.denominator
    ex = []
    for p in PRIMES:
        e = 0
        while n % p == 0:
            n //= p
            e += 1
        while d % p == 0:
            d //= p
            e -= 1
        ex.append(e)
    return dict(sg=sg, ex=ex, inmodel=(n == 1 and d == 1))


def unvec(v):
    f = Fraction(v['sg'])
    for p, e in zip(PRIMES, v['ex']):
        f *= Fraction(p) ** e
    return f


def proj(x):
    from quantity import Quantity, Unit
    r = dict(k='other', t='NONE', s='NONE', a=dict(sg=1, ex=[0] * len(PRIMES)), inmodel=True, x='', mro=[])
    if isinstance(x, BaseException):
        r.update(k='e', x=type(x).__name__, mro=[c.__name__ for c in type(x).__mro__])
        return r

    def setamt(a):
        if isinstance(a, float) or not isinstance(a, numbers.Rational):
            r['k'] = 'inexact'
            return False
        v = vec(a)
        r['a'] = dict(sg=v['sg'], ex=v['ex'])
        r['inmodel'] = v['inmodel']
        return True
    if isinstance(x, Quantity):
        if setamt(x.amount):
            r.update(k='q', t=type(x).__name__, s=alias(x.unit.symbol))
        return r
    if isinstance(x, tuple) and len(x) == 2:
        if setamt(x[0]):
            if x[1] is None:
                r['k'] = 'n'
            elif isinstance(x[1], Unit):
                r.update(k='t', t=x[1].qty_cls.__name__, s=alias(x[1].symbol))
        return r
    if isinstance(x, numbers.Rational) and not isinstance(x, bool):
        if setamt(x):
            r['k'] = 'n'
        return r
    r['x'] = type(x).__name__
    return r


def mk_operand(o):
    """o: dict(kind='q'|'u', s=alias, a=vec) -> library object."""
    from quantity import Unit
    from adapters.calc import mk_amount
    u = Unit(actual(o['s']))
    if o['kind'] == 'u':
        return u
    f = unvec(o['a'])
    return u.qty_cls(mk_amount([f.numerator, f.denominator], o.get('rep', 'dec')), u)


def run_case(c):
    import quantity
    import quantity.predefined as P
    from quantity import Quantity, Unit
    from adapters.calc import mk_amount
    ev = dict(c)
    op = c['op']
    try:
        if op == 'unit':
            u = Unit(actual(c['s']))
            cls = u.qty_cls
            ev['t'] = cls.__name__
            ev['isref'] = bool(u.is_ref_unit())
            ev['vec'] = dict(sg=1, ex=[0] * len(PRIMES))
            ev['inmodel'] = True
            if cls.ref_unit is not None:
                v = vec((1 * u).convert(cls.ref_unit).amount)
                ev['vec'] = dict(sg=v['sg'], ex=v['ex'])
                ev['inmodel'] = v['inmodel']
        elif op == 'redecl':
            # an attempt to declare the symbol of a predefined unit once more (another scale) is rejected and changes
            # nothing: the type still lists the very same unit with its documented scale
            u = Unit(actual(c['s']))
            cls = u.qty_cls
            ev['t'] = cls.__name__
            ev['rejected'] = False
            try:
                if cls.ref_unit is not None and cls.ref_unit is not u:
                    cls.new_unit(u.symbol, 'again', mk_amount([7, 3], 'frac') * cls.ref_unit)
                else:
                    cls.new_unit(u.symbol, 'again')
            except ValueError:
                ev['rejected'] = True
            except Exception:
                pass
            listed = [x for x in cls.units() if x.symbol == u.symbol]
            ev['same'] = bool(Unit(u.symbol) is u and cls.get_unit_by_symbol(u.symbol) is u and u.symbol in cls
                              and len(listed) == 1 and listed[0] is u and type(Quantity('1 ' + u.symbol)) is cls
                              and Quantity('1 ' + u.symbol).unit is u)
            ev['vec'] = dict(sg=1, ex=[0] * len(PRIMES))
            ev['inmodel'] = True
            if cls.ref_unit is not None:
                got = cls.get_unit_by_symbol(u.symbol)
                v = vec((1 * got).convert(cls.ref_unit).amount)
                ev['vec'] = dict(sg=v['sg'], ex=v['ex'])
                ev['inmodel'] = v['inmodel']
        elif op == 'count':
            syms = []
            for name in P.__all__:
                o = getattr(P, name)
                if isinstance(o, Unit):
                    syms.append(alias(o.symbol))
            ev['n'] = len(syms)
            ev['syms'] = syms
        elif op in ('conv', 'convx'):
            f = unvec(c['a'])
            u, v = Unit(actual(c['u'])), Unit(actual(c['v']))
            q = u.qty_cls(mk_amount([f.numerator, f.denominator], c.get('rep', 'dec')), u)
            try:
                if c.get('how') == 'str':
                    # the same conversion spelt Quantity("<amount> <symbol>", other unit)
                    from quantity import Quantity
                    text = '%s %s' % (f.numerator if f.denominator == 1 else '%d/%d' % (f.numerator, f.denominator), u.symbol)
                    ev['res'] = proj(Quantity(text, v))
                else:
                    ev['res'] = proj(q.convert(v))
            except Exception as exc:
                ev['res'] = proj(exc)
        elif op == 'conv0':
            # a zero amount converts like any other: zero of the target unit
            u, v = Unit(actual(c['u'])), Unit(actual(c['v']))
            q = u.qty_cls(mk_amount([0, 1], c.get('rep', 'dec')), u)
            try:
                r = q.convert(v)
                ev['zero'] = bool(r.amount == 0)
                ev['res'] = dict(proj(1 * r.unit), t=type(r).__name__)
            except Exception as exc:
                ev['zero'] = False
                ev['res'] = proj(exc)
        elif op == 'prefix':
            from quantity import si_prefixes
            pf = getattr(si_prefixes, c['name'].upper())
            v = vec(pf.factor)
            ev['vec'] = dict(sg=v['sg'], ex=v['ex'])
            ev['inmodel'] = v['inmodel'] and vec((pf * P.METRE).amount) == v
        elif op == 'nprefix':
            from quantity import si_prefixes
            ev['n'] = len(si_prefixes.SI_PREFIXES)
        elif op in ('mul', 'div'):
            x, y = mk_operand(c['x']), mk_operand(c['y'])
            # the operation is judged on the STORED operands (quantized types round at construction)
            for name, obj in (('x', x), ('y', y)):
                if c[name]['kind'] == 'q':
                    v = vec(obj.amount) if obj.amount != 0 else None
                    if v is None:
                        ev['skip'] = True
                    else:
                        ev[name] = dict(c[name], a=dict(sg=v['sg'], ex=v['ex']))
            if ev.get('skip'):
                return ev
            try:
                ev['res'] = proj(x * y if op == 'mul' else x / y)
            except Exception as exc:
                ev['res'] = proj(exc)
        elif op == 'pow':
            x = mk_operand(c['x'])
            if c['x']['kind'] == 'q' and x.amount != 0:
                v = vec(x.amount)
                ev['x'] = dict(c['x'], a=dict(sg=v['sg'], ex=v['ex']))
            try:
                ev['res'] = proj(x ** c['n'])
            except Exception as exc:
                ev['res'] = proj(exc)
        elif op == 'doc':
            pass       # prepared by doc_rows()
    except Exception as exc:
        ev['exc'] = '%s: %s' % (type(exc).__name__, str(exc)[:120])
    return ev


_ROW = re.compile(r'^(\S+)\s{2,}(.+?)\s{2,}(\S+)\s{2,}(\S+)\s*$')


def doc_rows():
    """Rows (symbol, documented equivalent, reference symbol) of the tables in
    quantity.predefined.__doc__ that have an 'Equivalent in' column."""
    import quantity.predefined as P
    rows = []
    ref = None
    for line in P.__doc__.splitlines():
        m = re.search(r"Equivalent in '([^']+)'", line)
        if m:
            ref = m.group(1)
            continue
        if line.startswith('===') or not line.strip():
            continue
        if re.match(r'^[\^]+$', line.strip()):
            ref = None
            continue
        if ref is None:
            continue
        m = _ROW.match(line)
        if m and re.match(r'^-?[0-9][0-9.]*$', m.group(4)):
            rows.append((m.group(1), m.group(4), ref))
    return rows
