"""Tracer for executions of the real library over the predefined catalogue:
wraps the public operators of Quantity and Unit (class-attribute assignment, no
source patch), records one self-contained event per OUTERMOST call (operands,
default rounding mode, outcome) in the format judged by BCalcTrace.tla.

Used (a) by the harness's own BCalc drivers and (b) as a pytest plugin
(qtrace_pytest.py, enabled only when QUANTITY_VERIF=1) while the repository's
test suite runs."""
import functools
import json
import numbers
import os
from fractions import Fraction

from adapters.catalogue import alias
from adapters.money import limbs, qjson

_depth = [0]
_events = []
_sink = [None]
_count = [0]
ZERO = dict(s=0, n=[], d=[1])


def blank():
    return dict(k='other', t='NONE', u='NONE', a=dict(ZERO), x='', mro=[], b=False, w=dict(s=0, n=[]))


def pv(x):
    """Project a value (operand or outcome) to the uniform record."""
    from quantity import Quantity, Unit
    r = blank()
    if isinstance(x, BaseException):
        r.update(k='e', x=type(x).__name__, mro=[c.__name__ for c in type(x).__mro__])
        return r
    if isinstance(x, bool):
        r.update(k='b', b=x)
        return r
    if isinstance(x, Quantity):
        a = x.amount
        if isinstance(a, float) or not isinstance(a, numbers.Rational):
            r.update(k='inexact', x=type(a).__name__)
            return r
        r.update(k='q', t=type(x).__name__, u=alias(x.unit.symbol), a=qjson(a))
        try:
            qu = x.unit.quantum
        except Exception:
            qu = None
        if qu is not None:
            k = Fraction(a) / Fraction(qu)
            if k.denominator == 1:
                r['w'] = dict(s=(1 if k > 0 else -1 if k < 0 else 0), n=limbs(abs(k.numerator)))
            else:
                r['w'] = dict(s=2, n=[])          # not on the grid: can never satisfy the relation
        return r
    if isinstance(x, Unit):
        r.update(k='u', t=x.qty_cls.__name__ if x.qty_cls is not None else 'NONE', u=alias(x.symbol), a=qjson(1))
        return r
    if isinstance(x, tuple) and len(x) == 2 and (x[1] is None or isinstance(x[1], Unit)):
        if isinstance(x[0], float) or not isinstance(x[0], numbers.Rational):
            r.update(k='inexact')
        elif x[1] is None:
            r.update(k='n', a=qjson(x[0]))
        else:
            r.update(k='t', t=x[1].qty_cls.__name__, u=alias(x[1].symbol), a=qjson(x[0]))
        return r
    if isinstance(x, float):
        r.update(k='n', a=qjson(Fraction(x)), x='float')
        return r
    if isinstance(x, numbers.Rational):
        r.update(k='n', a=qjson(x))
        return r
    try:
        import decimal
        if isinstance(x, decimal.Decimal):
            r.update(k='stddec')
            return r
    except Exception:
        pass
    r['x'] = type(x).__name__
    return r


def mode_name():
    import decimalfp
    return decimalfp.get_dflt_rounding_mode().name


def emit(ev):
    _count[0] += 1
    ev['id'] = 'q:%d' % _count[0]
    if _sink[0] is not None:
        _sink[0].write(json.dumps(ev) + '\n')
    else:
        _events.append(ev)


def base_event(op, x, y=None):
    return dict(op=op, x=pv(x), y=pv(y) if y is not None else pv(0), to='NONE', c='', n=0, rm='NONE',
                mode=mode_name(), kw=dict(s=0, n=[]), res=blank())


def _wrap(cls, name, op, swap=False, extra=None):
    from quantity import Quantity, Unit
    orig = cls.__dict__.get(name)
    if orig is None:
        return
    if getattr(orig, '_qv_wrapped', False):
        return

    @functools.wraps(orig)
    def wrapper(self, *args, **kwargs):
        if _depth[0] > 0:
            return orig(self, *args, **kwargs)
        _depth[0] += 1
        other = args[0] if args else None
        ev = None
        try:
            try:
                x, y = (other, self) if swap else (self, other)
                ev = base_event(op, x, y if (args or swap) else None)
                if extra:
                    extra(ev, self, args, kwargs)
            except Exception:
                ev = None
            try:
                res = orig(self, *args, **kwargs)
            except BaseException as exc:
                if ev is not None:
                    ev['res'] = pv(exc)
                    emit(ev)
                raise
            if ev is not None:
                if res is NotImplemented:
                    # the interpreter will try the reflected operator of a library operand (recorded there);
                    # for a foreign operand the outcome is a TypeError
                    if not isinstance(other, (Quantity, Unit)):
                        ev['res'] = pv(TypeError('NotImplemented'))
                        emit(ev)
                else:
                    ev['res'] = pv(res)
                    if op == 'Quantize' and ev['res']['k'] == 'q':
                        try:
                            nq = args[0].equiv_amount(self.unit)
                            k = Fraction(res.amount) / Fraction(nq)
                            ev['kw'] = dict(s=(1 if k > 0 else -1 if k < 0 else 0), n=limbs(abs(k.numerator))) \
                                if k.denominator == 1 else dict(s=2, n=[])
                        except Exception:
                            ev['kw'] = dict(s=2, n=[])
                    emit(ev)
            return res
        finally:
            _depth[0] -= 1
    wrapper._qv_wrapped = True
    setattr(cls, name, wrapper)


def _x_convert(ev, self, args, kwargs):
    u = args[0] if args else kwargs.get('to_unit')
    ev['to'] = alias(u.symbol) if hasattr(u, 'symbol') else 'NONE'
    ev['y'] = pv(0)


def _x_pow(ev, self, args, kwargs):
    ev['n'] = int(args[0]) if isinstance(args[0], int) and abs(args[0]) < 10 else 99
    ev['y'] = pv(0)


def _x_quantize(ev, self, args, kwargs):
    rm = args[1] if len(args) > 1 else kwargs.get('rounding')
    ev['rm'] = rm.name if rm is not None else 'NONE'


def _x_cmp(c):
    def f(ev, self, args, kwargs):
        ev['c'] = c
    return f


def install():
    """Wrap the operators (idempotent).  The library must already be importable."""
    from quantity import Quantity, Unit
    for cls in (Quantity, Unit):
        _wrap(cls, '__mul__', 'Mul')
        _wrap(cls, '__truediv__', 'Div')
        _wrap(cls, '__rtruediv__', 'Div', swap=True)
        _wrap(cls, '__pow__', 'Pow', extra=_x_pow)
        for c, n in (('lt', '__lt__'), ('le', '__le__'), ('gt', '__gt__'), ('ge', '__ge__'), ('eq', '__eq__')):
            _wrap(cls, n, 'Cmp', extra=_x_cmp(c))
    # aliases: __rmul__ / __radd__ are the same function objects as __mul__ / __add__ in the library;
    # wrap them separately with swapped operands
    _wrap(Quantity, '__add__', 'Add')
    _wrap(Quantity, '__sub__', 'Sub')
    _wrap(Quantity, '__rsub__', 'Sub', swap=True)
    _wrap(Quantity, '__neg__', 'Neg')
    _wrap(Quantity, '__abs__', 'Abs')
    _wrap(Quantity, 'convert', 'Convert', extra=_x_convert)
    _wrap(Quantity, 'quantize', 'Quantize', extra=_x_quantize)
    _wrap(Unit, '__rmul__', 'Mul', swap=True)
    # Quantity.__rmul__ and __radd__ are class attributes bound to the ORIGINAL functions
    orig_mul = Quantity.__dict__['__rmul__']
    if not getattr(orig_mul, '_qv_wrapped', False):
        _wrap(Quantity, '__rmul__', 'Mul', swap=True)
    orig_add = Quantity.__dict__['__radd__']
    if not getattr(orig_add, '_qv_wrapped', False):
        _wrap(Quantity, '__radd__', 'Add', swap=True)


def start(path=None):
    if path:
        _sink[0] = open(path, 'a')


def stop():
    if _sink[0] is not None:
        _sink[0].close()
        _sink[0] = None


def drain():
    ev = list(_events)
    del _events[:]
    return ev
