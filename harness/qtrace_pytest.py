"""pytest plugin: record the library calls the repository's own tests make.

Enabled only when QUANTITY_VERIF=1 (otherwise the plugin does nothing and the
suite runs exactly as the baseline).  Usage:
    QUANTITY_VERIF=1 QTRACE_FILE=<ndjson> PYTHONPATH=/verif/harness pytest -p qtrace_pytest ...
"""
import os

if os.environ.get('QUANTITY_VERIF') == '1':
    import qvimport
    qvimport.install('guard')
    import qtrace

    def pytest_configure(config):
        import quantity  # noqa: F401
        import quantity.predefined  # noqa: F401
        qtrace.install()
        import quantity.money  # noqa: F401
        import qtrace_money
        qtrace_money.install()
        qtrace.start(os.environ.get('QTRACE_FILE', '/tmp/qtrace.ndjson'))

    def pytest_unconfigure(config):
        qtrace.stop()
