"""Sacrificial run of ONE BCalc case on the unguarded library (stdin JSON -> stdout JSON list of events)."""
import json
import os
import sys

sys.path.insert(0, os.path.dirname(os.path.abspath(__file__)))
import qvimport  # noqa: E402

qvimport.install('plain')
import quantity.predefined  # noqa: E402,F401
from adapters import bcalc  # noqa: E402

c = json.load(sys.stdin)
sys.stdout.write(json.dumps(bcalc.run_case(c)))
sys.stdout.flush()
os._exit(0)
