"""Import `quantity` from the repository's working tree with guarded division.

The pinned dependency decimalfp 0.13.0 (C extension) returns corrupt or wrong
values for some true divisions (DESIGN.md 5.2).  To keep a dependency defect
from poisoning the harness process (heap corruption) and from being mistaken
for a defect of the repository, the library is imported through a meta path
finder that compiles the *current* sources under $VERIF_REPO/src (default
/repo/src) after rewriting every true-division expression `a / b` (and
`a /= b`) into `_qv_div(a, b)`.  `_qv_div` performs the very same division and
then validates the result of Decimal divisions against exact `Fraction`
arithmetic; when the dependency's result is corrupt or wrong it logs the
occurrence and returns the exact quotient instead (a Decimal when the quotient
terminates, else a Fraction - the documented behaviour of decimalfp).
Everything else in the library runs unmodified, so a change to the repository
shows identically with and without the guard.

`install(mode)`:
    mode == 'guard'  : rewrite + validate (default for all checks)
    mode == 'plain'  : no rewrite at all (used by sacrificial confirmation runs
                       that show what the unguarded library really does)
"""
import ast
import importlib.abc
import importlib.machinery
import os
import sys
from fractions import Fraction

REPO = os.environ.get('VERIF_REPO', '/repo')
SRC = os.path.join(REPO, 'src')

DIV_EVENTS = []          # (repr(a), repr(b), kind) of dependency deviations
DIV_COUNT = [0]


def _exact_quotient(a, b):
    from decimalfp import Decimal
    q = Fraction(a) / Fraction(b)
    d = q.denominator
    while d % 2 == 0:
        d //= 2
    while d % 5 == 0:
        d //= 5
    if d == 1:
        return Decimal(q)
    return q


def _qv_div(a, b):
    r = a / b
    try:
        from decimalfp import Decimal
    except Exception:           # pragma: no cover
        return r
    ta, tb = type(a), type(b)
    if ta is Decimal or tb is Decimal:
        if not (ta in (Decimal, int, Fraction) and tb in (Decimal, int, Fraction)):
            return r
        DIV_COUNT[0] += 1
        tr = type(r)
        if tr is Decimal:
            if r.precision >= 60000:
                DIV_EVENTS.append((repr(a), repr(b), 'corrupt'))
                return _exact_quotient(a, b)
        elif tr is not Fraction:
            return r
        try:
            ok = Fraction(r) * Fraction(b) == Fraction(a)
        except Exception:
            ok = False
        if not ok:
            DIV_EVENTS.append((repr(a), repr(b), 'wrong'))
            return _exact_quotient(a, b)
    return r


class _DivRewriter(ast.NodeTransformer):
    def visit_BinOp(self, node):
        self.generic_visit(node)
        if isinstance(node.op, ast.Div):
            new = ast.Call(func=ast.Name(id='_qv_div', ctx=ast.Load()),
                           args=[node.left, node.right], keywords=[])
            return ast.copy_location(new, node)
        return node

    def visit_AugAssign(self, node):
        self.generic_visit(node)
        if isinstance(node.op, ast.Div):
            tgt = node.target
            if isinstance(tgt, ast.Name):
                load = ast.Name(id=tgt.id, ctx=ast.Load())
                new = ast.Assign(
                    targets=[tgt],
                    value=ast.Call(func=ast.Name(id='_qv_div', ctx=ast.Load()),
                                   args=[load, node.value], keywords=[]))
                return ast.copy_location(new, node)
        return node


class _Loader(importlib.abc.SourceLoader):
    def __init__(self, fullname, path):
        self.fullname = fullname
        self.path = path

    def get_filename(self, fullname):
        return self.path

    def get_data(self, path):
        with open(path, 'rb') as f:
            return f.read()

    def source_to_code(self, data, path, *, _optimize=-1):
        tree = ast.parse(data, path)
        tree = _DivRewriter().visit(tree)
        ast.fix_missing_locations(tree)
        return compile(tree, path, 'exec', dont_inherit=True)

    def exec_module(self, module):
        module.__dict__['_qv_div'] = _qv_div
        super().exec_module(module)

    # never read or write byte code: always compile the working tree
    def get_code(self, fullname):
        data = self.get_data(self.path)
        return self.source_to_code(data, self.path)


class _Finder(importlib.abc.MetaPathFinder):
    def find_spec(self, fullname, path, target=None):
        if fullname != 'quantity' and not fullname.startswith('quantity.'):
            return None
        rel = fullname.split('.')
        base = os.path.join(SRC, *rel)
        if os.path.isdir(base) and os.path.isfile(os.path.join(base, '__init__.py')):
            p = os.path.join(base, '__init__.py')
            spec = importlib.machinery.ModuleSpec(
                fullname, _Loader(fullname, p), origin=p, is_package=True)
            spec.submodule_search_locations = [base]
            spec.has_location = True
            return spec
        p = base + '.py'
        if os.path.isfile(p):
            spec = importlib.machinery.ModuleSpec(
                fullname, _Loader(fullname, p), origin=p)
            spec.has_location = True
            return spec
        return None


_installed = [None]


def install(mode='guard'):
    """Make `import quantity` load the working tree (idempotent)."""
    if _installed[0] is not None:
        assert _installed[0] == mode
        return
    sys.dont_write_bytecode = True
    for name in list(sys.modules):
        if name == 'quantity' or name.startswith('quantity.'):
            raise RuntimeError('quantity imported before qvimport.install()')
    if mode == 'guard':
        sys.meta_path.insert(0, _Finder())
    else:
        sys.path.insert(0, SRC)
    _installed[0] = mode


def drain_div_events():
    ev = list(DIV_EVENTS)
    del DIV_EVENTS[:]
    return ev
