"""./check <property id> [--tier quick|thorough] [--replay <file>]"""
import argparse
import importlib
import json
import os
import sys

HERE = os.path.dirname(os.path.abspath(__file__))
sys.path.insert(0, HERE)

import ctx as ctxmod  # noqa: E402


def main():
    ap = argparse.ArgumentParser()
    ap.add_argument('pid')
    ap.add_argument('--tier', default=os.environ.get('VERIF_TIER', 'quick'),
                    choices=['quick', 'thorough'])
    ap.add_argument('--replay')
    a = ap.parse_args()
    seed = int(os.environ.get('VERIF_SEED', '0') or 0)
    pid = a.pid.upper()
    try:
        mod = importlib.import_module('checks.' + pid.lower())
    except ImportError as exc:
        print('no check for %s: %s' % (pid, exc))
        return 2
    c = ctxmod.Ctx(pid, a.tier, seed)
    try:
        if a.replay:
            c.is_replay = True
            with open(a.replay) as f:
                rp = json.load(f)
            mod.replay(c, rp)
        else:
            mod.run(c)
    except Exception as exc:
        import traceback
        c.fail('check crashed: ' + ''.join(traceback.format_exception(type(exc), exc, exc.__traceback__)))
    return c.finish()


if __name__ == '__main__':
    rc = main()
    sys.stdout.flush()
    sys.exit(rc)
