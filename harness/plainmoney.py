"""Sacrificial run of ONE money case on the unguarded library (stdin JSON -> stdout JSON)."""
import json
import os
import sys

sys.path.insert(0, os.path.dirname(os.path.abspath(__file__)))
import qvimport  # noqa: E402

qvimport.install('plain')
import quantity.money  # noqa: E402,F401
from adapters import money  # noqa: E402

inp = json.load(sys.stdin)
w = money.MoneyWorld(inp['codes'])
sys.stdout.write(json.dumps(money.run_case(w, inp['case'])))
sys.stdout.flush()
os._exit(0)
