"""Sacrificial run of Calc programs on the UNGUARDED library (reads JSON from
stdin, writes the event lists to stdout).  Used only to confirm what the real
dependency does where the division guard had to step in; may crash."""
import json
import os
import sys

sys.path.insert(0, os.path.dirname(os.path.abspath(__file__)))
import qvimport  # noqa: E402

qvimport.install('plain')
from adapters import calc  # noqa: E402

inp = json.load(sys.stdin)
world = calc.World(inp['world']).declare()
out = []
for prog in inp['programs']:
    out.append(calc.run_program(world, prog))
sys.stdout.write(json.dumps(out))
sys.stdout.flush()
os._exit(0)
