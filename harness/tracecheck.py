"""Batch trace validation: hand recorded events to a TLA+ trace specification,
several TLC processes in parallel, and collect its per-event verdicts."""
import json
import os
import re
import threading

import tlaparse
import tlc


def _extract(out, tag):
    """Yield parsed tuples <<"tag", ...>> printed by PrintT anywhere in TLC's output."""
    needle = re.compile(r'<<\s*"%s"\s*,' % re.escape(tag))
    pos = 0
    n = len(out)
    while True:
        m = needle.search(out, pos)
        if not m:
            return
        i = m.start()
        depth = 0
        j = i
        instr = False
        while j < n:
            c = out[j]
            if instr:
                if c == '\\':
                    j += 1
                elif c == '"':
                    instr = False
            elif c == '"':
                instr = True
            elif out.startswith('<<', j):
                depth += 1
                j += 1
            elif out.startswith('>>', j):
                depth -= 1
                j += 1
                if depth == 0:
                    break
            j += 1
        text = out[i:j + 1]
        pos = j + 1
        try:
            yield tlaparse.parse(text)
        except tlaparse.ParseError:
            yield (tag, 'unparsed', text[:300])


class TraceVerdict:
    def __init__(self):
        self.deviations = []     # (event id, expected value)
        self.skipped = []        # event ids out of model range
        self.events = 0
        self.consumed = 0
        self.tlc = []            # TLCResult summaries
        self.errors = []         # machinery failures
        self.states = 0
        self.transitions = 0


def validate(programs_events, module, nproc=16, tag=None, timeout=3600, extra_files=None, env=None, cfg_extra=''):
    """programs_events: list of event lists (one per program, starting with Reset)."""
    v = TraceVerdict()
    total = sum(len(p) for p in programs_events)
    v.events = total
    if total == 0:
        return v
    nchunks = max(1, min(nproc, total // 2000 + 1))
    chunks = [[] for _ in range(nchunks)]
    sizes = [0] * nchunks
    for p in sorted(programs_events, key=len, reverse=True):
        k = sizes.index(min(sizes))
        chunks[k].extend(p)
        sizes[k] += len(p)
    wd = tlc.new_workdir(tag or module)
    results = [None] * nchunks

    def work(k):
        path = os.path.join(wd, 'trace-%d.json' % k)
        with open(path, 'w') as f:
            json.dump(chunks[k], f)
        cfg = 'SPECIFICATION TraceSpec\nPOSTCONDITION Post\nCHECK_DEADLOCK FALSE\n' + cfg_extra
        results[k] = tlc.run(module, cfg_text=cfg, workdir=wd, workers=1, timeout=timeout,
                             env=dict(env or {}, TRACE_FILE=path), heap='3g', tag='%s-%d' % (tag or module, k),
                             files=extra_files)
    threads = [threading.Thread(target=work, args=(k,)) for k in range(nchunks)]
    for t in threads:
        t.start()
    for t in threads:
        t.join()
    for k, r in enumerate(results):
        v.tlc.append(r.summary())
        v.states += r.distinct
        v.transitions += r.generated
        done = list(_extract(r.out, 'QVDONE'))
        if not r.ok or not done:
            import re
            pos = [int(x) for x in re.findall(r'^i = (\d+)', r.out, re.M)]
            at = ''
            if pos and max(pos) <= len(chunks[k]):
                at = ' while judging event %d of the chunk: %s' % (max(pos), json.dumps(chunks[k][max(pos) - 1])[:600])
            v.errors.append('TLC chunk %d: rc=%s violated=%s error=%s%s\n%s' % (
                k, r.rc, r.violated, r.error, at, r.out[-1500:]))
            continue
        v.consumed += done[0][1]
        if done[0][1] != done[0][2]:
            v.errors.append('TLC chunk %d consumed %d of %d events' % (k, done[0][1], done[0][2]))
        for t in _extract(r.out, 'QV'):
            if t[1] == 'oor':
                v.skipped.append(t[2])
            else:
                v.deviations.append((t[2], t[1], t[3] if len(t) > 3 else None))
    return v


def monstrous(ev, limit=20000):
    """A recorded event whose JSON is huge holds a garbage number with tens of thousands of digits (the
    corrupt results of the pinned decimalfp, DESIGN 5.2): it is a deviation by itself and must not be
    handed to TLC (deep recursion)."""
    return len(json.dumps(ev)) > limit
