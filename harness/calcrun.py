"""Execute Calc register programs against the real library (forked, isolated)
and validate the recorded events with CalcTrace.tla."""
import json
import os

import forkpool
import tlc
import tracecheck

_WORLD = [None]


def export_world():
    if _WORLD[0] is None:
        wd = tlc.new_workdir('WorldExport')
        path = os.path.join(wd, 'world.json')
        r = tlc.run('WorldExport', cfg_file='WorldExport.cfg', workdir=wd, workers=1,
                    env={'WORLD_JSON': path}, heap='1g')
        if not r.ok or not os.path.exists(path):
            raise RuntimeError('WorldExport failed:\n' + r.out[-2000:])
        with open(path) as f:
            _WORLD[0] = json.load(f)
    return _WORLD[0]


def _stage(wj, programs, batch):
    import qvimport
    qvimport.install('guard')
    from adapters import calc
    world = calc.World(wj).declare()

    def one(prog):
        ev = calc.run_program(world, prog)
        return ev, qvimport.drain_div_events()
    return forkpool.forkmap(one, programs, batch=batch)


def execute(programs, batch=100):
    """Returns (list of event lists, list of dependency-division events, crashes)."""
    wj = export_world()
    res = forkpool.run_stage(_stage, wj, programs, batch)
    evs, divs, crashes = [], [], []
    for prog, r in zip(programs, res):
        if isinstance(r, dict):
            crashes.append((prog['id'], r))
            continue
        e, d = r
        evs.append(e)
        for x in d:
            divs.append((prog['id'],) + tuple(x))
    return evs, divs, crashes


def validate(event_lists, tag='CalcTrace'):
    return tracecheck.validate(event_lists, 'CalcTrace', tag=tag)
