"""Tracer for the money module: wraps ExchangeRate construction, inversion and the
rate operators (class-attribute assignment, no source patch) and records one event per
OUTERMOST call in the format judged by MoneyTrace.tla (rate_make, rate_invert, rate_mul,
rate_div, money_rate).  Shares the depth counter and the sink of qtrace.py, so calls the
library makes internally (a rate product constructs a rate) are not recorded twice."""
import decimal
import functools
import numbers
from fractions import Fraction

import qtrace
from adapters.money import err, limbs, proj_rate, qjson


def _frac(x):
    """The exact value of a number-like argument, or None."""
    try:
        if isinstance(x, bool):
            return None
        if isinstance(x, float):
            return Fraction(x) if x == x and x not in (float('inf'), float('-inf')) else None
        if isinstance(x, (numbers.Rational, decimal.Decimal)):
            return Fraction(x)
        if isinstance(x, str):
            return Fraction(x.strip())
    except (ValueError, ZeroDivisionError, OverflowError):
        return None
    return None


def _cur_sym(c):
    from quantity.money import Currency, Money
    if isinstance(c, Currency):
        return c.symbol
    if isinstance(c, str):
        try:
            u = Money.get_unit_by_symbol(c)
            return u.symbol if isinstance(u, Currency) else None
        except Exception:
            return None
    return None


def _wrap(cls, name, make_event):
    orig = cls.__dict__.get(name)
    if orig is None or getattr(orig, '_qv_wrapped', False):
        return

    @functools.wraps(orig)
    def wrapper(self, *args, **kwargs):
        if qtrace._depth[0] > 0:
            return orig(self, *args, **kwargs)
        qtrace._depth[0] += 1
        try:
            try:
                ev = make_event(self, args, kwargs)
            except Exception:
                ev = None
            try:
                res = orig(self, *args, **kwargs)
            except BaseException as exc:
                if ev is not None:
                    ev['_finish'](ev, self, exc, True)
                raise
            if ev is not None and res is not NotImplemented:
                ev['_finish'](ev, self, res, False)
            return res
        finally:
            qtrace._depth[0] -= 1
    wrapper._qv_wrapped = True
    setattr(cls, name, wrapper)


def _emit(ev):
    ev.pop('_finish', None)
    qtrace.emit(ev)


def _ev_init(self, args, kwargs):
    names = ('unit_currency', 'unit_multiple', 'term_currency', 'term_amount')
    a = dict(zip(names, args))
    a.update(kwargs)
    if set(a) != set(names):
        return None
    uc, tc = _cur_sym(a['unit_currency']), _cur_sym(a['term_currency'])
    if uc is None or tc is None:
        uc = tc = '?'                 # not two currencies: the specification expects a rejection
    m, t = _frac(a['unit_multiple']), _frac(a['term_amount'])
    if isinstance(a['unit_multiple'], float):
        return None                   # the property speaks of integral numbers: float multiples are not judged
    ev = dict(op='rate_make', uc=uc, tc=tc,
              mult=dict(integral=bool(m is not None and m.denominator == 1), ge1=bool(m is not None and m >= 1),
                        v=limbs(m.numerator) if (m is not None and m.denominator == 1 and m > 0) else []),
              amtnum=t is not None, amt=qjson(t if t is not None else 1))

    def finish(ev, self, res, raised):
        ev['obs'] = err(res) if raised else proj_rate(self)
        _emit(ev)
    ev['_finish'] = finish
    return ev


def _ev_inverted(self, args, kwargs):
    ev = dict(op='rate_invert', r=proj_rate(self))

    def finish(ev, self, res, raised):
        ev['obs'] = err(res) if raised else proj_rate(res)
        _emit(ev)
    ev['_finish'] = finish
    return ev


def _ev_binop(kind, swapped):
    def make(self, args, kwargs):
        from quantity.money import ExchangeRate, Money
        if len(args) != 1:
            return None
        other = args[0]
        if isinstance(other, ExchangeRate):
            if swapped:
                return None
            ev = dict(op='rate_mul' if kind == 'mul' else 'rate_div', r1=proj_rate(self), r2=proj_rate(other))

            def finish(ev, self, res, raised):
                ev['obs'] = err(res) if raised else proj_rate(res)
                _emit(ev)
            ev['_finish'] = finish
            return ev
        if type(other) is Money and (kind == 'mul' or swapped) and not isinstance(other.amount, float):
            # money * rate, rate * money, money / rate
            ev = dict(op='money_rate', kind=kind, cur=other.unit.symbol, amt=qjson(other.amount),
                      mode=qtrace.mode_name(), r=proj_rate(self))

            def finish(ev, self, res, raised):
                if raised:
                    ev['obs'] = dict(st='err', mro=[x.__name__ for x in type(res).__mro__], t='', cur='', R=[],
                                     ongrid=False, neg=False)
                else:
                    o = dict(st='ok', mro=[], t=type(res).__name__, cur='', R=[], ongrid=False, neg=False)
                    from quantity import Quantity
                    if isinstance(res, Quantity) and not isinstance(res.amount, float):
                        o['cur'] = res.unit.symbol
                        q = getattr(res.unit, 'smallest_fraction', None)
                        if q is not None:
                            k = Fraction(res.amount) / Fraction(q)
                            o.update(ongrid=k.denominator == 1, R=limbs(abs(int(k))), neg=k < 0)
                    ev['obs'] = o
                _emit(ev)
            ev['_finish'] = finish
            return ev
        return None
    return make


def install():
    from quantity.money import ExchangeRate
    _wrap(ExchangeRate, '__init__', _ev_init)
    _wrap(ExchangeRate, 'inverted', _ev_inverted)
    rmul_is_mul = ExchangeRate.__dict__.get('__rmul__') is ExchangeRate.__dict__.get('__mul__')
    _wrap(ExchangeRate, '__mul__', _ev_binop('mul', False))
    if not rmul_is_mul or not getattr(ExchangeRate.__dict__.get('__rmul__'), '_qv_wrapped', False):
        _wrap(ExchangeRate, '__rmul__', _ev_binop('mul', True))
    _wrap(ExchangeRate, '__truediv__', _ev_binop('div', False))
    _wrap(ExchangeRate, '__rtruediv__', _ev_binop('div', True))
