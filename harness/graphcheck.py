"""Generic 'model-check a module, dump its state graph, execute every
transition against the real library' step (used by ConvStack, RateTable, ...)."""
import importlib
import os

import forkpool
import graphreplay
import tlc


def _stage(dot, adapter_mod, factory, args, preload, lookahead=0):
    import qvimport
    qvimport.install('guard')
    for m in preload:
        importlib.import_module(m)
    mod = importlib.import_module(adapter_mod)
    make = getattr(mod, factory)
    g = graphreplay.load_dot(dot)
    res = graphreplay.replay(g, lambda: make(*args), lookahead=lookahead)
    devs = []
    for d in res['deviations']:
        labs = graphreplay.path_labels(g, res, d['src'], d['ei'], d.get('path'))
        if labs and not any('(' in l for l in labs):
            # actions without parameters in their label: describe the steps by the `out` variable
            nodes = [d['src']]
            while res['tree_path'](nodes[0]):
                nodes.insert(0, res['tree_path'](nodes[0])[-1][0]) if False else None
                break
            outs = []
            for (s_, e_) in graphreplay.path_edges(res, d):
                o = g.nodes[g.out[s_][e_][0]].get('out', {})
                outs.append('%s(%s)' % (o.get('act', '?'), ', '.join(str(o[k]) for k in ('a', 'b', 'c') if o.get(k))))
            labs = outs
        devs.append(dict(dev=d['dev'], path=labs))
    crashes = [graphreplay.path_labels(g, res, c['src'], c['ei'], c.get('path')) for c in res['crashes']]
    sample = []
    for s in list(g.out)[3:6]:
        if g.out[s]:
            sample.append(graphreplay.path_labels(g, res, s, 0))
    return dict(edges=res['edges'], nodes=res['nodes'], nedges=g.nedges, deviations=devs, crashes=crashes,
                harness=res['harness'], tasks=res['tasks'], wall=res['wall'], sample=sample,
                divs=qvimport.drain_div_events(), lookahead_steps=res.get('lookahead_steps', 0))


def run(ctx, module, cfg_text, name, adapter, what, preload=('quantity',), sigprefix=None, kind=None,
        replay_info=None, lookahead=0):
    """adapter = (module name, factory name, args tuple)."""
    wd = tlc.new_workdir('%s-%s' % (module, name))
    dot = os.path.join(wd, 'graph.dot')
    r = tlc.run(module, cfg_text=cfg_text, workdir=wd, tag='%s-%s' % (module, name), timeout=3000, workers=1,
                extra=['-dump', 'dot,actionlabels', dot])
    ok = ctx.add_tlc(r, '%s[%s]: %s' % (module, name, what), exhaustive=True)
    if not ok:
        return None
    ctx.log('%s[%s]: %d states; executing every transition against the library' % (module, name, r.distinct))
    res = forkpool.run_stage(_stage, dot, adapter[0], adapter[1], adapter[2], list(preload), lookahead)
    os.unlink(dot)
    ctx.log('%s[%s]: %d edges executed (%d in graph), %d deviations, %.1fs' % (
        module, name, res['edges'], res['nedges'], len(res['deviations']), res['wall']))
    ctx.traces += res['tasks']
    ctx.evaluations += res['edges'] + res.get('lookahead_steps', 0)
    if res.get('lookahead_steps'):
        ctx.notes.append('%s[%s]: %d additional steps executed below non-tree edges (lookahead %d)' % (
            module, name, res['lookahead_steps'], lookahead))
    ctx.nontrivial.update('%s:%s:%d' % (module, name, k) for k in range(res['edges']))
    for s in res['sample']:
        ctx.sample(dict(module=module, config=name, behaviour=[l[:90] for l in s]))
    for h in res['harness']:
        ctx.fail('%s[%s] harness: %s' % (module, name, h.get('harness')))
    for c in res['crashes']:
        ctx.deviation('%s:crash' % module, 'interpreter died executing ' + ' ; '.join(l[:60] for l in c),
                      dict(kind=kind or module, info=replay_info, path=c))
    if res['edges'] < res['nedges'] and not res['deviations'] and not res['crashes']:
        ctx.fail('%s[%s]: only %d of %d transitions executed' % (module, name, res['edges'], res['nedges']))
    for d in res['deviations']:
        for dv in d['dev']:
            ctx.deviation(dv['sig'], 'after ' + ' ; '.join(l[:70] for l in d['path']) + ': ' + dv['what'],
                          dict(kind=kind or module, info=replay_info, path=d['path']))
    return res
