"""Per-check context: collects what a run covered, triages deviations against
known_findings.json, writes evidence and replay files, decides the exit code."""
import hashlib
import json
import os
import sys
import time

VERIF = os.path.dirname(os.path.dirname(os.path.abspath(__file__)))
# runs against a scratch copy of the library (seeded changes) must not overwrite the evidence of the real tree
EVID = os.environ.get('VERIF_EVIDENCE') or os.path.join(VERIF, 'evidence')
REPLAYS = os.path.join(EVID, 'replays')


def _load_findings():
    p = os.path.join(VERIF, 'known_findings.json')
    if not os.path.exists(p):
        return []
    with open(p) as f:
        return json.load(f).get('findings', [])


class Ctx:
    def __init__(self, pid, tier, seed):
        self.pid = pid
        self.tier = tier
        self.seed = seed
        self.t0 = time.time()
        self.states = 0
        self.transitions = 0
        self.traces = 0
        self.evaluations = 0
        self.nontrivial = set()
        self.samples = []
        self.tlc_runs = []
        self.exhaustive = {}
        self.skipped = 0
        self.deviations = []      # dict(sig, what, replay)
        self.machinery = []       # strings
        self.known_seen = {}
        self.assumptions = []
        self.notes = []
        self.rule = ''
        self.findings = [f for f in _load_findings() if f.get('property') == pid]
        self.is_replay = False

    # ---- collection -----------------------------------------------------
    def log(self, msg):
        print('[%s %6.1fs] %s' % (self.pid, time.time() - self.t0, msg), flush=True)

    def add_tlc(self, res, what, exhaustive=None, required=True):
        """Record a TLC model-checking run of the specification itself."""
        self.tlc_runs.append(dict(what=what, **res.summary()))
        self.states += res.distinct
        self.transitions += res.generated
        if exhaustive is not None:
            self.exhaustive[what] = bool(exhaustive and res.ok)
        if not res.ok and required:
            self.machinery.append('model check "%s" failed: violated=%s error=%s\n%s' % (
                what, res.violated, res.error, res.out[-3000:]))
        return res.ok

    def add_trace_verdict(self, v, what):
        self.tlc_runs.append(dict(what=what, chunks=len(v.tlc), events=v.events,
                                  consumed=v.consumed, skipped=len(v.skipped),
                                  wall_s=round(sum(t['wall_s'] for t in v.tlc), 1)))
        self.states += v.states
        self.transitions += v.transitions
        self.skipped += len(v.skipped)
        for e in v.errors:
            self.machinery.append('%s: %s' % (what, e))

    def sample(self, s):
        if len(self.samples) < 8:
            self.samples.append(s)

    def count(self, key, nontrivial=True):
        self.evaluations += 1
        if nontrivial:
            self.nontrivial.add(key if isinstance(key, (str, int)) else
                                hashlib.md5(json.dumps(key, sort_keys=True, default=str)
                                            .encode()).hexdigest())

    def deviation(self, sig, what, replay):
        """A case where the implementation does not follow the specification."""
        self.deviations.append(dict(sig=sig, what=what, replay=replay))

    def fail(self, msg):
        self.machinery.append(msg)

    # ---- finish ---------------------------------------------------------
    def finish(self):
        os.makedirs(REPLAYS, exist_ok=True)
        open_f = {f['signature']: f for f in self.findings if f.get('status') == 'open'}
        violations = []
        known = {}
        for d in self.deviations:
            f = open_f.get(d['sig'])
            if f is not None:
                known.setdefault(d['sig'], []).append(d)
            else:
                violations.append(d)
        for sig, ds in known.items():
            print('KNOWN-FINDING: property=%s %s [%s; %d case(s) this run, e.g. %s]' % (
                self.pid, open_f[sig]['what'], sig, len(ds), ds[0]['what'][:200]))
        seen_sigs = set()
        nviol = 0
        for d in violations:
            nviol += 1
            if d['sig'] in seen_sigs and nviol > 25:
                continue
            seen_sigs.add(d['sig'])
            h = hashlib.md5(json.dumps(d['replay'], sort_keys=True, default=str).encode()).hexdigest()[:12]
            path = os.path.join(REPLAYS, '%s-%s.json' % (self.pid, h))
            with open(path, 'w') as f:
                json.dump(dict(property=self.pid, signature=d['sig'], what=d['what'],
                               replay=d['replay']), f, indent=1, default=str)
            if nviol <= 25:
                print('VIOLATION property=%s replay=%s' % (self.pid, path))
                print('    %s: %s' % (d['sig'], d['what'][:400]))
        if nviol > 25:
            print('    ... %d violations in total (%d distinct signatures)' % (nviol, len(seen_sigs)))
        wall = time.time() - self.t0
        ev = dict(
            property_id=self.pid, tier=self.tier, seed=self.seed, level='model_checking',
            coverage=dict(
                states=self.states, transitions=self.transitions,
                traces_validated_against_impl=self.traces,
                evaluations=self.evaluations, distinct_nontrivial=len(self.nontrivial),
                rule=self.rule, samples=self.samples or ['(none)'],
                exhaustive=bool(self.exhaustive) and all(self.exhaustive.values()),
                exhaustive_per_config=self.exhaustive,
                checker_cmd='tlc (see tlc_runs)', tlc_runs=self.tlc_runs,
                skipped_out_of_range=self.skipped,
                known_findings_seen={k: len(v) for k, v in known.items()},
                notes=self.notes),
            assumptions=self.assumptions, wall_s=round(wall, 2), violations=nviol)
        if not self.is_replay:
            os.makedirs(EVID, exist_ok=True)
            tmp = os.path.join(EVID, '%s.json.tmp' % self.pid)
            with open(tmp, 'w') as f:
                json.dump(ev, f, indent=1, default=str)
            os.replace(tmp, os.path.join(EVID, '%s.json' % self.pid))
        if self.machinery:
            print('MACHINERY-FAILURE property=%s (%d problem(s))' % (self.pid, len(self.machinery)))
            for m in self.machinery[:5]:
                print('    ' + m[:3000].replace('\n', '\n    '))
            return 1 if nviol else 2
        self.log('states=%d transitions=%d traces=%d evaluations=%d distinct_nontrivial=%d '
                 'skipped_oor=%d violations=%d known=%d wall=%.1fs' % (
                     self.states, self.transitions, self.traces, self.evaluations,
                     len(self.nontrivial), self.skipped, nviol, sum(len(v) for v in known.values()),
                     wall))
        return 1 if nviol else 0
