"""C18 - construction is exact and the text form round-trips."""
import itertools
import json
import os
import random
from fractions import Fraction as F

import forkpool
import tlc
import tracecheck

QUANTIZED = ('DataVolume',)
# a user type whose unit symbols contain a blank (like 'oz t', 'fl oz'): declared in the stage process, known to the
# specification through the symbol table like every other unit
BLANKY = [dict(s='bq', t='Blanky', f=[[1, 1]]), dict(s='oz t', t='Blanky', f=[[3, 100]]), dict(s='fl oz', t='Blanky', f=[[1, 4]]),
          # symbols that Unicode normalisation would change (OHM SIGN, ANGSTROM SIGN) next to their normalised twins
          dict(s='k\u2126', t='Blanky', f=[[7, 1]]), dict(s='k\u03a9', t='Blanky', f=[[9, 1]]), dict(s='\u212b', t='Blanky', f=[[1, 8]])]


def spec_symbols():
    """Symbol table (alias, type, scale) exported from Catalogue.tla through TLC."""
    wd = tlc.new_workdir('CatExport2')
    path = os.path.join(wd, 'cat.json')
    mod = ('---- MODULE CatExport2 ----\nEXTENDS Catalogue, Json, IOUtils, TLC\nVARIABLE done\n'
           'ExportSpec == done = JsonSerialize(IOEnv.CAT_JSON, [j \\in 1..NUnits |-> [s |-> UnitTable[j].s, t |-> UnitTable[j].t, f |-> UnitTable[j].f]])'
           ' /\\ [][UNCHANGED done]_done\n====\n')
    r = tlc.run('CatExport2', cfg_text='SPECIFICATION ExportSpec\nCHECK_DEADLOCK FALSE\n', workdir=wd, workers=1,
                env={'CAT_JSON': path}, heap='1g', files={'CatExport2.tla': mod})
    if not r.ok:
        raise RuntimeError('CatExport2 failed\n' + r.out[-2000:])
    return json.load(open(path))


def number_cases(tab, quick, rnd):
    cs = []
    units = [u['s'] for u in tab if u['t'] not in QUANTIZED]
    pick = ['m', 'km', 'um', 'm2', 'km/h', 'm/s2', 'kWh', 'degC', 'J/m', 'lb', 'mps2', 'B/s', 'Kib/s', 'ms', 'oz t', 'fl oz', 'k\u2126', 'k\u03a9', '\u212b']
    vals = []
    for n in (0, 1, -1, 7, 10 ** 30, -10 ** 30 + 1, 123456789012345678901234567890):
        vals.append(('int', F(n)))
    for f in (F(1, 3), F(-22, 7), F(10 ** 20 + 1, 10 ** 20), F(1, 10 ** 12), F(5, 8)):
        vals.append(('frac', f))
    for d in ('0.1', '-2.50', '3.141592653589', '0.000000000001', '1234567890.0987654321', '1E+3', '12'):
        vals.append(('dec', F(d)))
        vals.append(('stddec', F(d)))
    for d in ('1234567890.12345678901234567890123', '0.1234567890123456789012345678901234567', str(2 ** 100 + 1)):
        vals.append(('stddec', F(d)))
        vals.append(('dec', F(d)))
    floats = [0.1, -2.5, 1e-7, 5e-324, 2.2250738585072014e-308, 1.7976931348623157e308, 2.0 ** 52 + 1, (2 ** 53 - 1) * 2.0 ** -60,
              3.0 * 2.0 ** 970, 1 / 3, 1e22, 123456.789]
    for fl in floats:
        vals.append(('float', F(fl), fl.hex()))
    for u in (pick if quick else units):
        for v in vals:
            c = dict(kind=v[0], n=v[1].numerator, d=v[1].denominator, u=u)
            if len(v) > 2:
                c['fl'] = v[2]
            from adapters.money import qjson
            c['a'] = qjson(v[1])
            for generic in (False, True):
                cs.append(dict(c, op='num', generic=generic))
            cs.append(dict(c, op='roundtrip', generic=False))
    return cs


def string_cases(tab, quick, rnd):
    from adapters.catalogue import actual
    cs = []
    syms = ['m', 'km', 'um', 'm2', 'km/h', 'm/s2', 'degC', 'kWh', 'J/m', 'B/s']
    amounts = ['1', '-1', '0', '12.5', '-0.001', '1e3', '1E-2', '2.5e+3', '-7e-3', '1/3', '-22/7', '10/4', '007', '1.50',
               '123456789012345678901234567890', '0.000000000000000000001', '1e30', '3/1',
               # unspecified spellings (not judged)
               '+1', '.5', '5.', '1_0', '1e', '--1', '1.2.3', '1e1.5',
               # must be rejected
               'abc', '1m', '1,5', '0x10', 'inf', 'nan', 'NaN', '1/0', '-3/0', '1.5/2', '1/2/3', '1 /3', '', 'one', '1\tm', '١٢']
    forms = ['{a} {s}', '  {a} {s}', '{a}   {s}', '{a} {s}  ', '{a}{s}', '{a} {s} {s}', '{a}', '{a} ', '{s}', '{a} {s}x', '{s} {a}', ' ']
    for a in amounts:
        for s in (syms if not quick else syms[:6]) + (['oz t', 'fl oz', 'bq', 'k\u2126', 'k\u03a9', '\u212b'] if a in ('1', '12.5', '1/3', '1e3', 'abc', '-7e-3') else []):
            for form in (forms if (not quick or a in ('1', '1/3', '1e3', 'abc')) else forms[:5]):
                text = form.format(a=a, s=actual(s))
                for cls in ('Quantity', tab_type(tab, s), 'Mass'):
                    cs.append(dict(op='str', codes=[ord(ch) for ch in text], cls=cls))
    # parse with explicit other unit = parse then convert
    for (s, to) in (('km', 'm'), ('m', 'km'), ('in', 'cm'), ('mi', 'm'), ('km/h', 'm/s'), ('kWh', 'J'), ('m2', 'ha'), ('m', 's'),
                    ('lb', 'kg'), ('h', 'min'), ('oz t', 'bq'), ('fl oz', 'oz t'), ('bq', 'fl oz'), ('k\u2126', 'bq'), ('k\u03a9', 'k\u2126'), ('\u212b', 'bq'),
                    # units of equal scale are still different units
                    ('l', 'dm3'), ('dm3', 'l'), ('J', 'Nm'), ('Ws', 'J'),
                    # table-converted: every amount through the formula, whatever was parsed before
                    ('degC', 'degF'), ('degC', 'K'), ('degF', 'K'), ('K', 'degC'), ('degF', 'degC'), ('degC', 'degC')):
        for a in ('1', '2.5', '-1/3', '1e3', '0', '-40', '100'):
            cs.append(dict(op='strunit', codes=[ord(ch) for ch in '%s %s' % (a, actual(s))], to=to))
    # all short strings over a small alphabet (classification by the specification)
    alphabet = '012./-e mX+'
    n = 4 if quick else 5
    words = [''.join(w) for k in range(1, n + 1) for w in itertools.product(alphabet, repeat=k)]
    if quick:
        words = rnd.sample(words, 2500)
    for w in words:
        cs.append(dict(op='str', codes=[ord(ch) for ch in w + ' m'] if ' ' not in w else [ord(ch) for ch in w], cls='Quantity'))
    return cs


def directory_cases(tab):
    """Amount-and-symbol strings for every predefined symbol (and the blank-containing user symbols): the quantity is
    of the type owning the symbol and has exactly that unit (the string half of C15)."""
    from adapters.catalogue import actual
    cs = []
    for k, u in enumerate(tab):
        if u['t'] in QUANTIZED:
            continue
        for a in (('3', '-1/3') if k % 2 else ('2.5', '1e3')):
            text = '%s %s' % (a, actual(u['s']))
            for cls in ('Quantity', u['t']):
                cs.append(dict(op='str', codes=[ord(ch) for ch in text], cls=cls))
    return cs


def tab_type(tab, s):
    for u in tab:
        if u['s'] == s:
            return u['t']
    return 'Length'


def _stage(cs):
    import qvimport
    qvimport.install('guard')
    import quantity.predefined  # noqa: F401
    from adapters import text
    from adapters.calc import mk_amount
    from quantity import Quantity, QuantityMeta
    blanky = QuantityMeta('Blanky', (Quantity,), {}, ref_unit_symbol='bq')
    for u in BLANKY[1:]:
        blanky.new_unit(u['s'], None, mk_amount(u['f'][0], 'dec') * blanky.ref_unit)

    def one(c):
        return text.run_case(c), qvimport.drain_div_events()
    plain = [c for c in cs if c['op'] != 'gensym']
    own = [c for c in cs if c['op'] == 'gensym']          # these declare types with fixed symbols: one process each
    res = dict(zip([c['id'] for c in plain], forkpool.forkmap(one, plain, batch=500)))
    res.update(zip([c['id'] for c in own], forkpool.forkmap(one, own, batch=1)))
    return [res[c['id']] for c in cs]


def judge(ctx, cs, what, tab):
    from adapters.catalogue import actual
    from adapters.money import qjson
    for j, c in enumerate(cs):
        c['id'] = '%s:%d' % (what, j)
    res = forkpool.run_stage(_stage, cs)
    evs, byid, ndiv = [], {}, 0
    for c, r in zip(cs, res):
        if isinstance(r, dict):
            if '_harness_exc' in r:
                ctx.fail('%s harness: %s' % (what, r['_harness_exc']))
            else:
                ctx.deviation('Text:crash', 'interpreter died on %s' % brief(c), dict(kind='text', case=c))
            continue
        e, d = r
        if 'exc' in e:
            ctx.fail('%s adapter exception: %s' % (what, e['exc']))
            continue
        ndiv += len(d)
        evs.append(e)
        byid[e['id']] = (c, e)
        ctx.count(e['id'])
    # symbol table for the specification
    syms = []
    for u in tab:
        f = F(1)
        for n, d in u['f']:
            f *= F(n, d)
        syms.append(dict(codes=[ord(ch) for ch in actual(u['s'])], name=u['s'], type=u['t'],
                         scale=qjson(f if u['t'] != 'Temperature' else 1)))
    symfile = os.path.join(tlc.scratch_root(), 'syms.json')
    with open(symfile, 'w') as f:
        json.dump(syms, f)
    if ndiv:
        ctx.notes.append('%s: decimalfp division guard stepped in %d time(s)' % (what, ndiv))
    ctx.log('%s: %d observations, validating with TextTrace.tla' % (what, len(evs)))
    chunks = [evs[k:k + 1500] for k in range(0, len(evs), 1500)]
    v = tracecheck.validate(chunks, 'TextTrace', tag=ctx.pid + '-' + what, env={'SYMS_FILE': symfile})
    ctx.add_trace_verdict(v, what)
    ctx.traces += len(chunks)
    for e in evs[:2] + evs[-1:]:
        ctx.sample(brief(e))
    for eid, verdict, _ in v.deviations:
        c, e = byid[eid]
        ctx.deviation('Text:%s:%s' % (e['op'], verdict.split(':', 1)[1] if ':' in verdict else verdict),
                      '%s: %s; observed %s' % (brief(e), verdict, json.dumps(e.get('obs'), default=str)[:200]),
                      dict(kind='text', case=c))


def brief(e):
    if e['op'] == 'gensym':
        return 'generated symbol for ' + ' * '.join('%s^%d' % (''.join(chr(x) for x in it['codes']), it['e']) for it in e['items'])
    if e['op'] == 'latesym':
        return 'text with symbol %r before and after its declaration' % e['sym']
    if e['op'] == 'dupsym':
        return 'declare a second unit %r (%s) in another type' % (e['u'], e['how'])
    if e['op'] in ('str', 'strunit'):
        return '%s %r%s' % (e.get('cls', 'Quantity'), ''.join(chr(x) for x in e['codes']), (' -> ' + e['to']) if 'to' in e else '')
    s = '%s %s(%s) %s' % (e['op'], e['kind'], e.get('fl') or F(e['n'], e['d']), e['u'])
    if e.get('text') is not None:
        s += ' str=%r' % e['text']
    return s


def run(ctx):
    quick = ctx.tier == 'quick'
    rnd = random.Random(ctx.seed)
    ctx.rule = ('Quantity(number, unit) for ints to +-10^30, Fractions, Decimals (0..21 fractional digits), '
                'decimal.Decimal, floats incl. 5e-324, DBL_MIN, DBL_MAX, 2^52+1 (exact binary value) x units with ASCII, '
                'non-ASCII and compound symbols x generic / typed factory; str / format / re-parse of each; strings: '
                '50 amount spellings x symbols x 12 layouts x 3 factories, all / sampled strings of length <= 5 over the '
                'alphabet "012./-e mX+", parse with explicit other unit.  The specification classifies each string '
                'accept / reject / unspecified and computes the exact value on big naturals.')
    ctx.assumptions = ['digit-level rendering of amounts is checked through the round trip and the specification\'s own '
                       'parse of str(q), not specified digit by digit', 'quantized types are covered by C05 / C08']
    tab = spec_symbols() + BLANKY
    r = tlc.run('CatalogueLaws', cfg_file='CatalogueLaws.cfg', tag='CatalogueLaws', workers=4)
    ctx.add_tlc(r, 'CatalogueLaws (symbol / scale table used for parsing with units)', exhaustive=True)
    dup = [dict(op='dupsym', u=u, how=h) for u in ('a', 'm', 'km/h', 'um', 'K') for h in ('scaled', 'plain')]
    # generated symbols of derived reference units (the text form of unit terms)
    gens = []
    symsets = [['x', 'y'], ['x', 'y', 'z'], ['p/q', 'tt'], ['µ', 'Ω'], ['a/b', 'c/d'], ['x']]
    for ss in symsets:
        for exps in itertools.product([-3, -2, -1, 1, 2, 3], repeat=len(ss)):
            if len(ss) == 3 and (abs(exps[0]) > 2 or abs(exps[2]) > 1):
                continue
            if len(ss) == 1 and exps[0] == 1:
                continue
            gens.append(dict(op='gensym', how='ref', items=[dict(codes=[ord(ch) for ch in s_], e=e) for s_, e in zip(ss, exps)]))
    if quick:
        gens = rnd.sample(gens, 60)
    dup = dup + gens + [dict(op='latesym', sym=sy) for sy in ('smoot', 'zz', 'late one', 'µx')]
    judge(ctx, number_cases(tab, quick, rnd) + string_cases(tab, quick, rnd) + dup, 'text', tab)
    # quantized types: "rounded only if the type has a quantum" - user currencies with arbitrary smallest
    # fractions, constructed from numbers of every kind and from strings (Money.tla, big naturals)
    from checks import c08, moneycheck
    moneycheck.judge(ctx, c08.construct_cases(quick), 'quantized-construct', codes=['EUR'])
    # text naming the symbol of a currency whose declaration was rejected is text with an unknown symbol
    moneycheck.judge(ctx, c08.newcur_cases(), 'rejected-currencies', codes=['EUR'])


def replay(ctx, rp):
    if rp['replay'].get('kind') in ('money', 'money-plain'):
        from checks import c09
        return c09.replay(ctx, rp)
    judge(ctx, [dict(rp['replay']['case'])], 'replay', spec_symbols() + BLANKY)
