"""C01 - unit conversion within a quantity type is exact and coherent."""
import itertools
import random
from fractions import Fraction as F

import calccheck
import calcrun
from drivers.calcgen import Prog, world_tables, MODES
from checks import calcmodel

LINEAR = ['A', 'B', 'AB', 'A2', 'ApB', 'DpB', 'Bi', 'ApBD']
QUANTIZED = ['D', 'E']


def programs(ctx):
    quick = ctx.tier == 'quick'
    rnd = random.Random(ctx.seed)
    types, units, by_type = world_tables(calcrun.export_world())
    dens = [1, 2, 3, 8, 10] if quick else [1, 2, 3, 4, 5, 7, 8, 10]
    nmax = 9 if quick else 20
    amounts = sorted({F(n, d) for n in range(-nmax, nmax + 1) for d in dens})
    if quick:
        amounts = amounts[::2] + [F(0)]
    progs = []
    k = 0
    for t in LINEAR + QUANTIZED:
        us = by_type[t]
        for (u, v) in itertools.product(us, us):
            for rep in ('dec', 'frac'):
                p = Prog('c01p%d' % k)
                k += 1
                ws = [w for w in us if w not in (u, v)]
                for a in amounts:
                    p.make(1, t if k % 2 else 'Quantity', a, u, rep)
                    p.convert(1, v, 2)            # exact ratio of scales
                    if t in LINEAR:
                        p.convert(2, u, 3)        # back: identical amount
                        p.cmp('eq', 1, 2)         # converted equals original
                        p.cmp('eq', 3, 1)
                        if ws:
                            w = ws[(amounts.index(a)) % len(ws)]
                            p.convert(2, w, 4)    # through an intermediate unit ...
                            p.convert(1, w, 5)    # ... equals direct
                            p.cmp('eq', 4, 5)
                progs.append(p.d())
    # quantized types under other default modes
    for dm in MODES:
        p = Prog('c01q-' + dm)
        p.setmode(dm)
        for t in QUANTIZED:
            for (u, v) in itertools.permutations(by_type[t], 2):
                for n in range(-17, 18, 1 if not quick else 2):
                    p.make(1, t, F(n, 16), u, 'frac')
                    p.convert(1, v, 2)
        progs.append(p.d())
    # other quantity type -> IncompatibleUnitsError ; no conversion -> UnitConversionError
    p = Prog('c01err')
    alltypes = LINEAR + QUANTIZED + ['N', 'T', 'Money']
    for t1 in alltypes:
        for (u1, a) in ((by_type[t1][-1], F(5, 2)), (by_type[t1][0], F(0)), (by_type[t1][-1], F(-3)), (by_type[t1][0], F(1))):
            if units[u1]['quantum']:
                a = units[u1]['quantum'] * int(a * 2)
            p.make(1, t1, a, u1)
            for t2 in alltypes:
                for u2 in by_type[t2][:2]:
                    p.convert(1, u2, 2)
    progs.append(p.d())
    # ... also after the two units have been divided / multiplied (whatever those operations left behind)
    p = Prog('c01cross')
    lin = [t for t in LINEAR]
    for t1 in lin:
        for t2 in lin:
            if t1 == t2:
                continue
            u1, u2 = by_type[t1][-1], by_type[t2][-1]
            p.unit(3, u1)
            p.unit(4, u2)
            p.bin('Div', 3, 4, 5)
            p.bin('Mul', 3, 4, 5)
            p.make(1, t1, F(90), u1)
            p.make(2, t2, F(2), u2)
            p.bin('Div', 1, 2, 5)
            p.convert(1, u2, 6)
            p.convert(2, u1, 6)
    progs.append(p.d())
    # random chains with larger values
    nrand = 40 if quick else 400
    for j in range(nrand):
        p = Prog('c01z%d' % j)
        for _ in range(25):
            t = rnd.choice(LINEAR)
            us = by_type[t]
            p.make(1, t, F(rnd.randint(-2000, 2000), rnd.choice([1, 2, 3, 4, 5, 6, 7, 8, 9, 10, 16, 25, 100])),
                   rnd.choice(us), rnd.choice(['dec', 'frac']))
            cur = 1
            for _ in range(rnd.randint(1, 5)):
                p.convert(cur, rnd.choice(us), 3 - cur if cur in (1, 2) else 1)
                cur = 3 - cur if cur in (1, 2) else 1
            p.cmp('eq', 1, 2)
        progs.append(p.d())
    return progs


def sig(prog, ev):
    return 'Calc:%s' % ev['op']


def run(ctx):
    ctx.rule = ('for every quantity type of World.tla with scaled units (chains of Decimal / Fraction / int '
                'factors, term-defined and derived-from-base units): every ordered pair and a rotating third '
                'unit x a grid of rational amounts x {Decimal, Fraction}: convert, convert back, via a third '
                'unit, equality with the original; conversions into every other type; random chains.  The '
                'expected amount is amount * ScaleOf(u)/ScaleOf(v) with ScaleOf computed by the specification '
                'from the declared definitions.  distinct_nontrivial = distinct (operation, operand values, '
                'mode) events.')
    ctx.assumptions = ['15-bit rational range of the TLC model (out-of-range events are counted as skipped)',
                       'decimalfp true division guarded (DESIGN 5.2)',
                       'the predefined catalogue is covered by C20 (Scale vectors), not here']
    calcmodel.laws(ctx, 'conv')
    calccheck.run_programs(ctx, programs(ctx), 'convert', sigfn=sig)
    from checks import bcalccheck
    bcalccheck.dep_canonical(ctx, bcalccheck.DEP['C01'])
    # results whose exact value has a denominator far beyond 10^6 (small metric into large imperial units, amounts
    # with huge denominators): still the exact ratio, never an approximation (BCalc.tla, big rationals)
    big = []
    for (u, v) in (('mm', 'mi'), ('um', 'mi'), ('cm', 'yd'), ('mg', 'lb'), ('g', 'lb'), ('mi', 'mm'), ('m', 'km'), ('km', 'm')):
        for a in (F(1), F(2, 3000001), F(-7, 3), F(10 ** 20 + 1, 10 ** 20), F(1, 10 ** 9 + 7)):
            big.append(dict(op='Convert', x=bcalccheck.q(u, a), to=v))
            big.append(dict(op='Cmp', c='eq', x=bcalccheck.q(u, a), y=bcalccheck.q(u, a)))
    bcalccheck.run_cases(ctx, big, 'big-denominators')
    if ctx.tier == 'thorough':
        bcalccheck.repo_suite(ctx, {'Convert'})


def replay(ctx, rp):
    if str(rp['replay'].get('kind')).startswith('bcalc'):
        from checks import bcalccheck
        return bcalccheck.replay(ctx, rp)
    calccheck.replay(ctx, rp, sig)
