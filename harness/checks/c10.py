"""C10 - applying an exchange rate converts money and prices correctly."""
import random

from checks import moneycheck, pricecheck


def run(ctx):
    rnd = random.Random(ctx.seed)
    ctx.rule = ('money * rate, rate * money, money / rate for 5 ISO currencies (0, 2 and 3 decimals) x rates in normal '
                'form (incl. unit multiples > 1, six-decimal term amounts) x amounts on and around ties x 8 default '
                'rounding modes, plus every currency mismatch; TLC judges on big naturals that the result is the exact '
                'product / quotient with the STORED rate rounded exactly once to the target currency\'s smallest '
                'fraction.  Prices (money per quantity): Units-style declaration histories of compound units, see '
                'PriceRate in the evidence.')
    ctx.assumptions = ['minor units of the target currency come from the independently parsed ISO table']
    moneycheck.model(ctx)
    moneycheck.judge(ctx, moneycheck.apply_cases(ctx, rnd), 'apply')
    pricecheck.run(ctx)
    # money * rate / money / rate calls of the repository's own test suite
    moneycheck.repo_suite(ctx, {'money_rate'})


def replay(ctx, rp):
    r = rp['replay']
    if r.get('kind') == 'price':
        pricecheck.replay(ctx, rp)
    else:
        from checks import c09
        c09.replay(ctx, rp)
