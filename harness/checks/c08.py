"""C08 - money never mixes currencies implicitly and follows ISO 4217."""
import itertools
import random
from fractions import Fraction as F

from checks import moneycheck
from checks.moneycheck import V

OPS = ['add', 'sub', 'div', 'mul', 'lt', 'le', 'gt', 'ge', 'eq', 'ne', 'convert', 'parse']


def qj(x):
    from adapters.money import qjson
    return qjson(F(x))


def newcur_cases():
    cs = []
    k = [0]

    def case(sym, minor, sf, symok=True):
        k[0] += 1
        c = dict(op='newcur', sym=sym, symok=symok,
                 minor=dict(given=minor is not None, int=False, v=0, obj=V('int', 0)),
                 sf=dict(given=sf is not None, num=False, q=qj(0), divides1=False, digits=0, terminates=True, obj=V('int', 0)))
        if minor is not None:
            kind, val = minor
            c['minor'].update(int=(kind == 'int'), v=int(val) if kind == 'int' else 0,
                              obj=V(kind, val) if kind != 'str' else V('str', text=val))
        if sf is not None:
            kind, val = sf
            if kind == 'str' and not _isnum(val):
                c['sf'].update(num=False, obj=V('str', text=val))
            else:
                f = F(val)
                digits = 0
                while (f * 10 ** digits).denominator != 1 and digits < 30:
                    digits += 1
                c['sf'].update(num=True, q=qj(f), divides1=(f > 0 and (1 / f).denominator == 1 and f < 1), digits=digits,
                               terminates=(f * 10 ** digits).denominator == 1,
                               obj=V(kind, f) if kind != 'str' else V('str', text=str(val)))
        cs.append(c)
    n = [0]

    def sym():
        n[0] += 1
        return 'Q%02d' % n[0]
    # valid
    for md in (0, 1, 2, 3, 4):
        case(sym(), ('int', md), None)
    for sf in ('0.5', '0.25', '0.1', '0.05', '0.01', '0.001', '0.2', '0.125'):
        case(sym(), None, ('dec', sf))
        case(sym(), None, ('str', sf))
    case(sym(), None, None)
    case(sym(), ('int', 2), ('dec', '0.01'))
    case(sym(), ('int', 3), ('dec', '0.005'))
    case(sym(), ('int', 2), ('dec', '0.05'))
    # smallest fractions that are no decimal fractions: accepted or rejected, but never half-registered
    for fr in (F(1, 3), F(1, 240), F(1, 6), F(1, 7)):
        case(sym(), None, ('frac', fr))
    # invalid parameters -> rejected, no trace
    case(sym(), ('int', -1), None)
    case(sym(), ('frac', F(3, 2)), None)
    case(sym(), ('str', '2'), None)
    case(sym(), None, ('dec', '0'))
    case(sym(), None, ('dec', '-0.01'))
    case(sym(), None, ('dec', '0.03'))
    case(sym(), None, ('dec', '0.3'))
    case(sym(), None, ('str', 'abc'))
    case(sym(), ('int', 2), ('dec', '0.001'))
    case(sym(), ('int', 1), ('dec', '0.05'))
    case('', ('int', 2), None, symok=False)
    case('#5', ('int', 2), None, symok=False)
    return cs


def construct_cases(quick):
    cs = []
    k = 0
    for sf in ('0.05', '0.5', '0.25', '0.2', '0.005', '0.01', '0.125'):
        for a in ('1.02', '1.03', '1.025', '0.07', '2.5', '-1.02', '-0.075', '7', '0.3125', '1.0249', '12.375'):
            for how in ('dec', 'str', 'frac', 'float', 'sum'):
                for mode in (['ROUND_HALF_EVEN'] if quick and k % 3 else ['ROUND_HALF_EVEN', 'ROUND_FLOOR', 'ROUND_HALF_UP', 'ROUND_UP']):
                    k += 1
                    f = F(a)
                    if how == 'float':
                        f = F(float(f))
                    c = dict(op='construct', how='str' if how == 'str' else ('sum' if how == 'sum' else 'obj'),
                             text=a, sfv=V('dec', sf), sf=qj(F(sf)), mode=mode, amt=qj(f))
                    c['amtv'] = dict(kind='float', n=f.numerator, d=f.denominator) if how == 'float' else \
                        V('frac' if how == 'frac' else 'dec', f)
                    if how == 'dec' and F(a).denominator == 1:
                        c['amtv'] = V('int', f)
                    cs.append(c)
    # number * currency / currency * number: the float's exact binary value counts, under every mode
    for sf in ('0.01', '0.001', '0.05'):
        for a in ('2.675', '0.29', '0.07', '1.0005', '0.125', '-2.675', '1.005', '0.015'):
            for how in ('unitmul', 'unitrmul'):
                for mode in ('ROUND_HALF_EVEN', 'ROUND_HALF_UP', 'ROUND_DOWN', 'ROUND_UP', 'ROUND_FLOOR', 'ROUND_CEILING'):
                    for kind in ('float', 'dec'):
                        f = F(float(F(a))) if kind == 'float' else F(a)
                        cs.append(dict(op='construct', how=how, text=a, sfv=V('dec', sf), sf=qj(F(sf)), mode=mode, amt=qj(f),
                                       amtv=dict(kind='float', n=f.numerator, d=f.denominator) if kind == 'float' else V('dec', f)))
    return cs


def _isnum(s):
    try:
        F(s)
        return True
    except Exception:
        return False


def run(ctx):
    quick = ctx.tier == 'quick'
    rnd = random.Random(ctx.seed)
    from adapters import money
    iso = money.iso_table()
    codes = [e['code'] for e in iso]
    ctx.rule = ('every entry of the bundled ISO 4217 table (parsed independently from the XML; must be 167 functional '
                'currencies): name, smallest fraction = 10^-minor units, idempotent registration, amounts rounded to the '
                'fraction; unknown / malformed / non-functional codes rejected without trace; ordered pairs of distinct '
                'currencies (quick: a 40-currency sample and all pairs of 6, thorough: all 167*166) x 11 operators with '
                'no converter active; operations within one currency; user-declared currencies with valid and invalid '
                'minor unit / smallest fraction.')
    ctx.assumptions = ['the ISO table is read by the harness\'s own XML parser, not by the library']
    # nine decimals divided by the quantum 1 (where the pinned decimalfp mis-divides, DESIGN 5.2) - first, so that it
    # is among the cases confirmed on the unguarded library
    f9 = F(10810546875, 10 ** 9)
    cs = [dict(op='construct', how='obj', text='', minor=0, sfv=V('int', 1), sf=qj(1), mode='ROUND_HALF_EVEN',
               amt=qj(f9), amtv=V('dec', f9))]
    # spellings that are not in the table although a table code is close (asked before that code is registered)
    unreg = [c for c in codes if c != 'EUR'][:: max(1, len(codes) // (8 if quick else 60))]
    near = [dict(op='iso', code=sp) for c in unreg for sp in (c.lower(), ' ' + c, c + ' ', c.title(), c)]
    cs += [dict(op='iso', code=c) for c in codes]
    cs += [dict(op='iso', code=c) for c in ('XAU', 'XXX', 'XTS', 'eur', 'EURO', 'E', '', 'ABC', 'XBA', 'DEM', 'ZZZ')]
    cs.append(dict(op='isocount'))
    sample = codes if not quick else sorted(rnd.sample(codes, 40) + ['EUR', 'USD', 'JPY', 'KWD', 'CLF', 'BHD'])
    sample = sorted(set(sample))
    pairs = list(itertools.permutations(sample, 2))
    if quick:
        pairs = rnd.sample(pairs, 900) + list(itertools.permutations(['EUR', 'USD', 'JPY', 'KWD', 'CLF', 'BHD'], 2))
    k = 0
    for c1, c2 in pairs:
        ops = OPS if not quick else rnd.sample(OPS, 4)
        for f in ops:
            k += 1
            b = [[3 + k % 4, 1], [0, 1], [3, 1000], [-2, 1]][k % 4 if k % 7 == 0 else 0]     # also zero / rounds-to-zero / negative
            a = [7 * (k % 5 + 1), 1] if k % 11 else [0, 1]
            cs.append(dict(op='mix', f=f, c1=c1, c2=c2, a=a, b=b, k=k))
    for c1 in sample:
        for f in OPS:
            k += 1
            cs.append(dict(op='mix', f=f, c1=c1, c2=c1, a=[12 + k % 7, 1], b=[5, 1] if k % 3 else [12 + k % 7, 1], k=k))
    for (c1, c2) in (('EUR', 'USD'), ('USD', 'EUR'), ('JPY', 'KWD'), ('KWD', 'EUR')):
        for f in OPS:
            for (a, b) in (([5, 1], [0, 1]), ([0, 1], [5, 1]), ([0, 1], [0, 1]), ([5, 1], [4, 1000]), ([-5, 1], [-5, 1])):
                k += 1
                cs.append(dict(op='mix', f=f, c1=c1, c2=c2, a=a, b=b, k=k))
    # a converter was active in a with-block that has since been left (normally or by an exception): "no converter
    # active" again.  These run last within their process (a leaked converter would colour everything after it).
    for (c1, c2) in (('EUR', 'USD'), ('JPY', 'KWD'), ('USD', 'USD')):
        for pre in ('block', 'block_exc', 'nested'):
            for f in OPS:
                k += 1
                cs.append(dict(op='mix', f=f, c1=c1, c2=c2, a=[7, 1], b=[3, 1], k=k, pre=pre))
    for (c1, c2) in (('EUR', 'USD'), ('JPY', 'KWD'), ('USD', 'EUR')):
        for f in ('lt', 'le', 'gt', 'ge', 'eq', 'ne', 'add'):
            for (a, b) in (([-1, 1], [1, 1]), ([1, 1], [-1, 1]), ([-5, 2], [7, 1])):      # amounts of opposite sign
                k += 1
                cs.append(dict(op='mix', f=f, c1=c1, c2=c2, a=a, b=b, k=k))
    cs += newcur_cases()
    cs += construct_cases(quick)
    # quantity * price per quantity: money in the price's currency, in every order of currencies
    decl = [dict(c=c_, m='kg') for c_ in ('EUR', 'USD', 'JPY')]
    pm = []
    for seq in itertools.permutations(('EUR', 'USD', 'JPY'), 2):
        for form in ('mul', 'rmul'):
            pm.append(dict(op='price_mass', decl=decl, form=form, seq=[[seq[0], [21, 4]], [seq[1], [5, 1]]]))
    moneycheck.model(ctx)
    moneycheck.judge(ctx, near, 'iso-spellings', codes=['EUR'])
    moneycheck.judge(ctx, cs, 'iso+mix', codes=sample)
    moneycheck.judge(ctx, pm, 'price-products', codes=['EUR', 'USD', 'JPY'], group=lambda c: 'one')
    ctx.exhaustive['ISO 4217 table entries'] = True


def replay(ctx, rp):
    from checks import c09
    c09.replay(ctx, rp)
