"""C17 - results do not depend on evaluation history."""
from checks import unitscheck

MENUS = {
    'quick': [
        ('memo', ['tA', 'tB', 'tAB', 'ka', 'kab', 'm_ka_b', 'm_b_ka', 'd_kab_b', 'p_ka_2', 'tA2'], 7),
        ('order', ['tA', 'tA2', 'ka', 'ka2', 'aa', 'm_ka_ka', 'm_a_ha', 'ha', 'd_a2_ka', 'p_ka_2'], 7),
        ('cancel', ['tA', 'tB', 'tBi', 'tApB', 'ka', 'm_b_bi', 'd_ka_b', 'm_apb_b', 'd_ka_ha', 'ha', 'd_ka_ka'], 6),
        ('noref', ['tA', 'tM', 'tMpA', 'p', 'q', 'ppa', 'qpa', 'm_ppa_a', 'm_qpa_a', 'm_a_qpa', 'd_ppa_qpa'], 8),
        ('badsym', ['tA', 'tB', 'tA2', 'tAB', 'tA2_symdup', 'tAB_symdup', 'ka', 'm_ka_ka', 'm_ka_b', 'm_b_ka'], 6),
        ('noref2', ['tA', 'tM', 'tMpA', 'p', 'ka', 'ppkad', 'ppa', 'd_p_a', 'd_p_ka', 'd_ppkad_ppa'], 8),
        ('latealias', ['tA', 'tA2', 'ka', 'ka2', 'm_ka_ka', 'a2x', 'a_one', 'd_a2_ka'], 7),
        ('exp2', ['tA', 'tB', 'tApB', 'tApB2', 'ka', 'cb', 'kapcb2', 'd_ka_cb', 'd_ka_b'], 7),
        ('sameDef', ['tA', 'tA2', 'ka', 'ka2', 'kk', 'd_kk_ka', 'd_ka2_ka', 'm_ka_ka', 'p_ka_2'], 6),
    ],
    'thorough': [
        ('memo', ['tA', 'tB', 'tAB', 'ka', 'cb', 'kab', 'kacb', 'm_ka_b', 'm_b_ka', 'm_ka_cb', 'd_kab_b', 'p_ka_2', 'tA2'], 7),
        ('order', ['tA', 'tA2', 'ka', 'ka2', 'aa', 'sq', 'm_ka_ka', 'm_a_ha', 'ha', 'd_a2_ka', 'p_ka_2', 'p_ka_3'], 7),
        ('cancel', ['tA', 'tB', 'tBi', 'tApB', 'ka', 'm_b_bi', 'd_ka_b', 'm_apb_b', 'd_ka_ha', 'ha', 'd_ka_ka', 'p_ka_m1'], 6),
        ('noref', ['tA', 'tM', 'tMpA', 'p', 'q', 'ka', 'ppa', 'm_ppa_a', 'm_ppa_ka', 'd_p_a', 'd_p_ka', 'd_p_q', 'd_p_p', 'm_p_q'], 6),
    ]}


def memo_programs(ctx):
    import itertools
    import random
    from fractions import Fraction as F
    import calcrun
    from drivers.calcgen import Prog, world_tables
    rnd = random.Random(ctx.seed)
    types, units, by_type = world_tables(calcrun.export_world())
    scal = [u for u in units if types[units[u]['t']]['conv'] == 'scale' and not units[u]['quantum']]
    pairs = [(u, v) for u, v in itertools.product(scal, scal) if u != v]
    if ctx.tier == 'quick':
        pairs = [pr for pr in pairs if units[pr[0]]['t'] == units[pr[1]]['t']] + rnd.sample(pairs, 120)
    progs = []
    kinds = [(3, 4), (1, 4), (3, 2), (1, 2)]          # registers: 1, 2 quantities; 3, 4 units
    for k, (u, v) in enumerate(pairs):
        p = Prog('c17m%d' % k)
        p.make(1, units[u]['t'], F(3, 2), u)
        p.make(2, units[v]['t'], F(-5, 4), v, 'frac')
        p.unit(3, u)
        p.unit(4, v)
        order = list(itertools.product(('Div', 'Mul'), kinds, (False, True)))
        rnd.shuffle(order)
        for op, (x, y), swap in order:
            if swap:
                x, y = {1: 2, 2: 1, 3: 4, 4: 3}[y], {1: 2, 2: 1, 3: 4, 4: 3}[x]
            p.bin(op, x, y, 5)
        p.bin('Mul', 1, 2, 5)            # the product, then its quotients by either factor, both kinds of operand
        p.bin('Div', 5, 2, 6)
        p.bin('Div', 5, 1, 6)
        p.bin('Div', 5, 4, 6)
        p.bin('Div', 5, 3, 6)
        progs.append(p.d())
    # other calls evaluated before a product must not matter either: quantize (zero amount / rejected, explicit mode),
    # round, comparisons - then products and quotients that land exactly between two multiples of a quantum
    from drivers.calcgen import MODES
    for j, m in enumerate(MODES):
        p = Prog('c17q%d' % j)
        p.make(1, 'A', F(0), 'a')
        p.make(2, 'A', F(1, 2), 'ka')
        p.make(3, 'B', F(1), 'b')
        p.quantize(1, 2, m, 6)            # zero amount
        p.quantize(1, 3, m, 6)            # rejected: quantum of another type
        p.round(2, 0, 6)
        for k in range(1, 9):
            p.make(1, 'DpB', F(k, 16), 'dpb', 'frac')
            p.make(4, 'B', F(1), 'b')
            p.bin('Mul', 1, 4, 5)         # k/16 d: every second one is a tie on the grid of 1/8 d
            p.bin('Mul', 4, 1, 5)
            p.make(5, 'D', F(k, 8), 'd')
            p.num(6, F(2), 'int')
            p.bin('Div', 5, 6, 5)
        progs.append(p.d())
    return progs


def run(ctx):
    ctx.rule = ('every interleaving of declarations and unit operations (products, quotients, powers; both operand '
                'orders; repeated; attempted before their result type exists) over the menus, each transition executed '
                'from the library state the history built; the result (type + exact value in base units, or '
                'UndefinedResultError) is compared with Fresh - a pure function of the current declarations in '
                'Units.tla - so all histories reaching the same declarations are compared with one history-free '
                'value.  distinct_nontrivial = executed transitions.')
    ctx.assumptions = ['types are identified by name in the specification']
    for name, menu, depth in MENUS[ctx.tier]:
        unitscheck.run_menu(ctx, name, menu, depth)
    # value-level: the same product / quotient asked in every operand kind (unit-unit, quantity-unit, unit-quantity,
    # quantity-quantity) and in both orders, one after the other in one interpreter - whatever an earlier operation
    # left in the memo, each answer is the specification's (Calc.tla over World.tla)
    import calccheck
    calccheck.run_programs(ctx, memo_programs(ctx), 'memo-orders', sigfn=lambda prog, ev: 'Calc:' + ev['op'])
    # quotients of money in two non-base currencies along histories of converter updates (every lookup after every
    # step: whatever an earlier lookup left behind, an update of either currency shows at once)
    from checks import mconvcheck
    mconvcheck.run_config(ctx, 'crossmemo', ['y2020', 'none'], ['x2y5', 'x4', 'y5', 'x2', 'y125'], 3 if ctx.tier == 'quick' else 4)
    # long random histories over the whole menu (61 items), replayed on the specification (UnitsTrace.tla)
    from checks import unitstrace
    unitstrace.run(ctx, 250 if ctx.tier == 'quick' else 3000, 30 if ctx.tier == 'quick' else 40)


def replay(ctx, rp):
    if rp['replay'].get('kind') == 'unitstrace':
        from checks import unitstrace
        return unitstrace.replay(ctx, rp)
    if rp['replay'].get('kind') == 'RateTable':
        from checks import mconvcheck
        return mconvcheck.replay(ctx, rp)
    if rp['replay'].get('kind') == 'calc':
        import calccheck
        return calccheck.replay(ctx, rp, lambda prog, ev: 'Calc:' + ev['op'])
    unitscheck.replay_path(ctx, rp)
