"""C11 - the money converter yields the right rate for every update history and date."""
from checks import mconvcheck

CONFIGS = {
    'quick': [
        ('year', ['y2020', 'sy2020', 'y2021', 'none'], ['x2', 'x4', 'y5', 'x2y5'], 3),
        ('month', ['m2020_1', 'ms2020_1', 'sm2020_01', 'm2020_2', 'm2021_1', 'y2020'], ['x2', 'y125', 'x20p10'], 2),
        ('day', ['d2020_1_15', 'sd2020_1_15', 'd2020_1_1', 'd2021_2_1', 'none'], ['x4', 'y5', 'xx'], 2),
        ('const', ['none', 'y2020', 'd2020_1_1'], ['x2', 'y5', 'y125', 'xx', 'empty'], 3),
        ('inexact', ['y2020', 'none'], ['x12', 'y85', 'x4ybad', 'y5'], 3),
    ],
    'thorough': [
        ('year', ['y2020', 'sy2020', 'y2021', 'none', 'y0', 'sybad'], ['x2', 'x4', 'y5', 'x2y5', 'y125'], 4),
        ('month', ['m2020_1', 'ms2020_1', 'sm2020_01', 'm2020_2', 'm2021_1', 'y2020', 'm13', 'sm13'],
         ['x2', 'y125', 'x20p10', 'x4ybad'], 3),
        ('day', ['d2020_1_15', 'sd2020_1_15', 'd2020_1_1', 'd2021_2_1', 'none', 'sdbad', 's4', 'flt'],
         ['x4', 'y5', 'xx', 'xbad0'], 3),
        ('const', ['none', 'y2020', 'd2020_1_1', 'm2020_1'], ['x2', 'y5', 'y125', 'xx', 'empty', 'bident'], 4),
        ('inexact', ['y2020', 'y2021', 'none'], ['x12', 'y85', 'x4', 'x4ybad', 'y5', 'y125'], 4),
    ]}


def run(ctx):
    ctx.rule = ('every history (up to the bound) of update calls over menus of validity spellings (None / int / str year, '
                '(y, m) tuple of ints or strings / "YYYY-MM", date / "YYYY-MM-DD", invalid ones) x rate-spec lists '
                '(several currencies, unit multiples, repeated keys, invalid specs) and changes of the default date; '
                'every transition of the TLC state graph executed on a real MoneyConverter; after each step ALL 63 '
                'lookups (9 ordered currency pairs x 6 dates + default date): get_rate value, direction, None, and '
                'converter(money, currency, date) = amount x reported rate are compared with the specification.')
    ctx.assumptions = ['where the exact quotient has more than six decimals the reported rate must be its C09 normal form, rounded once (harness-side comparison)']
    mconvcheck.fixpoint(ctx, 'mixed', ['y2020', 'sy2020', 'y2021', 'none', 'm2020_1', 'd2020_1_15'] +
                        ([] if ctx.tier == 'quick' else ['m2020_2', 'sm2020_01', 'd2021_2_1', 'y0', 'm13']),
                        ['x2', 'x4', 'y5', 'x2y5', 'x12', 'y85', 'x4ybad'] + ([] if ctx.tier == 'quick' else ['y125', 'xx', 'empty']))
    for name, sps, sls, steps in CONFIGS[ctx.tier]:
        mconvcheck.run_config(ctx, name, sps, sls, steps)


def replay(ctx, rp):
    mconvcheck.replay(ctx, rp)
