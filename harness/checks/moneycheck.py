"""Shared driver for the checks decided with Money.tla (C08, C09, C10, part of C05/C16)."""
import itertools
import json
import os
import random
import subprocess
import sys
from fractions import Fraction as F

import forkpool
import tlc
import tracecheck

HERE = os.path.dirname(os.path.dirname(os.path.abspath(__file__)))
CODES = ['EUR', 'USD', 'JPY', 'KWD', 'HKD']
MODES = ['ROUND_05UP', 'ROUND_CEILING', 'ROUND_DOWN', 'ROUND_FLOOR',
         'ROUND_HALF_DOWN', 'ROUND_HALF_EVEN', 'ROUND_HALF_UP', 'ROUND_UP']


def model(ctx):
    cfg = open(tlc.SPEC_DIR + '/cfg/BigLaws.cfg').read()
    if ctx.tier == 'quick':
        cfg = cfg.replace('NMax = 120', 'NMax = 60').replace('DMax = 9', 'DMax = 7')
    r = tlc.run('BigLaws', cfg_text=cfg, tag='BigLaws')
    ctx.add_tlc(r, 'BigLaws: limb arithmetic of Big.tla agrees with integers; relational rounding IsRounded selects '
                   'exactly Rat.RoundInt for all 8 modes and both signs on the grid', exhaustive=True)


def _stage(cs, codes, groups=None):
    import qvimport
    qvimport.install('guard')
    import quantity.money  # noqa: F401
    from adapters import money
    w = money.MoneyWorld(codes)

    def one(c):
        ev = money.run_case(w, c)
        return ev, qvimport.drain_div_events()
    if groups is None:
        return forkpool.forkmap(one, cs, batch=400)
    # cases of one group share one child process (they build on common declarations)
    res = forkpool.forkmap(lambda idxs: [one(cs[i]) for i in idxs], groups, batch=1)
    out = [None] * len(cs)
    for idxs, r in zip(groups, res):
        for j, i in enumerate(idxs):
            out[i] = r[j] if isinstance(r, list) else r
    return out


def judge(ctx, cs, what, codes=CODES, confirm=True, group=None):
    from adapters import money
    for j, c in enumerate(cs):
        c['id'] = '%s:%d' % (what, j)
    groups = None
    if group is not None:
        g = {}
        for j, c in enumerate(cs):
            g.setdefault(group(c), []).append(j)
        groups = list(g.values())
    res = forkpool.run_stage(_stage, cs, codes, groups)
    evs, byid, divcases = [], {}, []
    for c, r in zip(cs, res):
        if isinstance(r, dict):
            if '_harness_exc' in r:
                ctx.fail('%s harness: %s' % (what, r['_harness_exc']))
            else:
                ctx.deviation('Money:crash', 'interpreter died on %s' % json.dumps(c)[:200], dict(kind='money', case=c))
            continue
        e, d = r
        if 'exc' in e:
            ctx.fail('%s: adapter exception on %s: %s' % (what, brief(c), e['exc']))
            continue
        if d:
            divcases.append((c, d))
        evs.append(e)
        byid[e['id']] = (c, e)
        ctx.count(e['id'])
    ctx.log('%s: %d observations, validating with MoneyTrace.tla' % (what, len(evs)))
    wd_iso = os.path.join(tlc.scratch_root(), 'iso4217.json')
    if not os.path.exists(wd_iso):
        with open(wd_iso, 'w') as f:
            json.dump(money.iso_table(), f)
    chunks = [evs[k:k + 1500] for k in range(0, len(evs), 1500)]
    v = tracecheck.validate(chunks, 'MoneyTrace', tag=ctx.pid + '-' + what, env={'ISO_FILE': wd_iso})
    ctx.add_trace_verdict(v, what)
    ctx.traces += len(chunks)
    for e in evs[:2] + evs[-1:]:
        ctx.sample(brief(e))
    for eid, verdict, _ in v.deviations:
        c, e = byid[eid]
        ctx.deviation(sig_of(e, verdict), '%s: %s; observed %s' % (brief(e), verdict, obs_text(e)),
                      dict(kind='money', case=c, codes=codes))
    if divcases and confirm:
        ctx.notes.append('%s: decimalfp division guard stepped in for %d case(s)' % (what, len(divcases)))
        divcases.sort(key=lambda cd: 0 if any(x[2] == 'corrupt' for x in cd[1]) else 1)
        confirm_plain(ctx, [c for c, d in divcases[:4]], codes,
                      '%s / %s' % (divcases[0][1][0][0], divcases[0][1][0][1]), wd_iso)
    return v


def confirm_plain(ctx, cs, codes, example, iso):
    evs, bad = [], None
    for c in cs:
        try:
            p = subprocess.run([sys.executable, os.path.join(HERE, 'plainmoney.py')],
                               input=json.dumps(dict(case=c, codes=codes)),
                               stdout=subprocess.PIPE, stderr=subprocess.PIPE, text=True, timeout=120)
        except subprocess.TimeoutExpired:
            p = None
        if p is None or p.returncode != 0:
            bad = 'unguarded interpreter died (rc=%s) on %s' % (getattr(p, 'returncode', 'timeout'), brief(c))
            break
        got = json.loads(p.stdout)
        if tracecheck.monstrous(got):
            bad = 'without the guard the library returns a number with thousands of digits on %s' % _brief_any(c)
            break
        evs.append(got)
    if bad is None and evs:
        v = tracecheck.validate([evs], 'MoneyTrace', tag=ctx.pid + '-plain', env={'ISO_FILE': iso})
        for e in v.errors:
            ctx.fail('plain confirmation: ' + e)
        if v.deviations:
            e = [x for x in evs if x['id'] == v.deviations[0][0]][0]
            bad = 'without the guard: %s gives %s (%s)' % (brief(e), obs_text(e), v.deviations[0][1])
    if bad:
        ctx.deviation('dep:decimalfp-div9', bad + ' - decimalfp mis-divides %s' % example,
                      dict(kind='money-plain', cases=cs, codes=codes))
    else:
        ctx.notes.append('plain confirmation: unguarded library conformed on %d case(s)' % len(cs))


def sig_of(e, verdict):
    v = verdict.split(':', 1)[1] if ':' in verdict else verdict
    extra = ''
    if e['op'] == 'rate_make' and v == 'magnitude':
        extra = ':multiple-not-power-of-ten' if not _pow10(e) else ''
    return 'Money:%s:%s%s' % (e['op'], v, extra)


def _pow10(e):
    mv = e.get('multv', {})
    try:
        f = F(mv['n'], mv['d'])
    except Exception:
        return True
    while f >= 10 and f.denominator == 1 and f % 10 == 0:
        f /= 10
    return f == 1


def val_text(s):
    if s['kind'] == 'str':
        return repr(s['text'])
    if s['kind'] == 'obj':
        return 'object()'
    return '%s(%s)' % (s['kind'], F(s['n'], s['d']))


def _qtext(q):
    n = sum(l * 10000 ** i for i, l in enumerate(q['n']))
    d = sum(l * 10000 ** i for i, l in enumerate(q['d'])) or 1
    return str(F(q['s'] * n, d))


def brief(e):
    op = e['op']
    if str(e.get('id', '')).startswith('suite:'):
        # recorded from the repository's suite: operands are the projected values
        if op == 'rate_make':
            m = sum(l * 10000 ** i for i, l in enumerate(e['mult']['v']))
            return 'ExchangeRate(%s, %s, %s, %s)' % (e['uc'], m if e['mult']['integral'] else '(not integral)', e['tc'],
                                                     _qtext(e['amt']) if e['amtnum'] else '(not a number)')
        if op == 'money_rate':
            return '%s: %s %s %s rate %s' % (e['kind'], _qtext(e['amt']), e['cur'], e['mode'], rate_text(e['r']))
    if op == 'rate_make':
        return 'ExchangeRate(%s, %s, %s, %s)' % (e['uc'], val_text(e['multv']), e['tc'], val_text(e['amtv']))
    if op == 'money_rate':
        return '%s: %s %s %s rate %s' % (e['form'], F(e['an'], e['ad']), e['cur'], e['mode'], rate_text(e['r']))
    if op in ('rate_mul', 'rate_div'):
        return '%s %s , %s' % (op, rate_text(e['r1']), rate_text(e['r2']))
    if op == 'rate_eq':
        return brief_eq(e)
    if op == 'price_rate':
        return 'price %s: %s %s/%s, rate %s, declared %s' % (e['form'], F(e['p']['n'], e['p']['d']), e['p']['c'] if e['p']['ismoney'] else '(mass)',
                                                            e['p']['m'], rate_text(e['r']), ['%s/%s' % (d['c'], d['m']) for d in e['decl']])
    if op == 'rate_invert':
        return 'invert ' + rate_text(e['r'])
    if op == 'mix':
        return '%s(%s %s, %s %s)' % (e['f'], F(*e['a']), e['c1'], F(*e['b']), e['c2'])
    if op == 'newcur':
        return 'Money.new_unit(%r, minor=%s, smallest_fraction=%s)' % (
            e['sym'], val_text(e['minor']['obj']) if e['minor']['given'] else None,
            val_text(e['sf']['obj']) if e['sf']['given'] else None)
    return '%s %s' % (op, e.get('code', ''))


def rate_text(r):
    t6 = sum(l * 10000 ** i for i, l in enumerate(r['t6']))
    return '%s %s = %s %s' % (10 ** r['k'], r['uc'], F(t6, 10 ** 6), r['tc'])


def obs_text(e):
    o = e.get('obs', {})
    if o.get('st') == 'err':
        return 'raise ' + (o.get('mro') or ['?'])[0]
    if 't6' in o and o.get('st') == 'ok':
        return rate_text(o) + ('' if o.get('wf') else ' (not well-formed)')
    return json.dumps({k: v for k, v in o.items() if k not in ('mro',)}, default=str)[:200]


# ---- case generators ------------------------------------------------------
def V(kind, x=None, text=None):
    if kind == 'str':
        return dict(kind='str', text=text, n=0, d=1)
    if kind == 'obj':
        return dict(kind='obj', n=0, d=1)
    f = F(x)
    return dict(kind=kind, n=f.numerator, d=f.denominator)


def mult_spec(x):
    f = F(x)
    return dict(integral=f.denominator == 1, ge1=f >= 1, v=_limbs(f.numerator if f.denominator == 1 and f > 0 else 0))


def _limbs(n):
    from adapters.money import limbs
    return limbs(n)


def qj(x):
    from adapters.money import qjson
    return qjson(F(x))


def rate_make_cases(ctx, rnd):
    quick = ctx.tier == 'quick'
    cs = []
    mults = [1, 2, 5, 9, 10, 50, 100, 755, 900, 1000, 10 ** 6]
    cvals = [F(1), F(3, 2), F(2), F(9999999, 1000000), F(9999995, 10000000), F(3, 7), F(1, 3), F(29, 4)]
    exps = list(range(-7, 5)) if not quick else [-7, -6, -5, -3, -2, -1, 0, 1, 3]
    pairs = [('EUR', 'USD'), ('USD', 'JPY'), ('KWD', 'EUR'), ('HKD', 'HKD')]
    k = 0
    for m in mults:
        for c in cvals:
            for e in exps:
                k += 1
                a = c * F(10) ** e
                mk = ['int', 'dec', 'frac', 'str'][k % 4]
                ak = ['dec', 'frac', 'float', 'str'][(k // 4) % 4]
                if ak == 'dec' and a.denominator % 3 == 0 or ak == 'dec' and a.denominator % 7 == 0:
                    ak = 'frac'
                uc, tc = pairs[k % 3]
                case = dict(op='rate_make', uc=uc, tc=tc, ucstr=(k % 11 == 0), tcstr=(k % 13 == 0))
                case['multv'] = V(mk, m) if mk != 'str' else V('str', text=str(m))
                case['mult'] = mult_spec(m)
                if ak == 'str':
                    txt = str(a.numerator) if a.denominator == 1 else ('%s/%s' % (a.numerator, a.denominator))
                    case['amtv'] = V('str', text=txt)
                    av = a
                elif ak == 'float':
                    fl = a.numerator / a.denominator
                    av = F(fl)
                    case['amtv'] = dict(kind='float', n=av.numerator, d=av.denominator)
                else:
                    case['amtv'] = V(ak, a)
                    av = a
                case['amt'] = qj(av)
                case['amtnum'] = True
                cs.append(case)
    # invalid inputs
    for (m, ok_m) in ((0, False), (-1, False), (F(3, 2), False), (F(5, 2), False), (1, True)):
        for (a, ok_a) in ((F(0), False), (F(-5), False), (F(1, 10 ** 7), False), (F(5), True)):
            if ok_m and ok_a:
                continue
            for ak in ('dec', 'frac', 'int'):
                if ak == 'int' and a.denominator != 1:
                    continue
                cs.append(dict(op='rate_make', uc='EUR', tc='USD', multv=V('frac' if F(m).denominator != 1 else 'int', m),
                               mult=mult_spec(m), amtv=V(ak, a), amt=qj(a), amtnum=True))
    # identical currencies, however each side is spelt (object / ISO code)
    for cur in ('EUR', 'HKD'):
        for (us, ts) in ((False, False), (True, False), (False, True), (True, True)):
            cs.append(dict(op='rate_make', uc=cur, tc=cur, ucstr=us, tcstr=ts, multv=V('int', 1), mult=mult_spec(1),
                           amtv=V('dec', 2), amt=qj(2), amtnum=True))
    cs.append(dict(op='rate_make', uc='EUR', tc='USD', multv=V('int', 1), mult=mult_spec(1), amtv=V('str', text='abc'), amt=qj(1), amtnum=False))
    cs.append(dict(op='rate_make', uc='EUR', tc='USD', multv=V('int', 1), mult=mult_spec(1), amtv=V('obj'), amt=qj(1), amtnum=False))
    cs.append(dict(op='rate_make', uc='EUR', tc='USD', multv=V('str', text='1.5'), mult=mult_spec(F(3, 2)), amtv=V('dec', 2), amt=qj(2), amtnum=True))
    return cs


def stored_rates(rnd, n, curs=('EUR', 'USD', 'JPY', 'KWD')):
    """Random rates already in normal form (k, t6)."""
    out = []
    for _ in range(n):
        uc, tc = rnd.sample(curs, 2)
        k = rnd.choice([0, 0, 0, 1, 2, 3])
        t6 = rnd.choice([rnd.randint(100000, 999999), rnd.randint(10 ** 6, 10 ** 7), rnd.randint(10 ** 7, 2 * 10 ** 9),
                         1250000, 800000, 1000000, 123456789, 999999, 100000])
        out.append(dict(uc=uc, tc=tc, k=k, t6=_limbs(t6)))
    return out


def algebra_cases(ctx, rnd):
    quick = ctx.tier == 'quick'
    rates = stored_rates(rnd, 60 if quick else 400)
    cs = [dict(op='rate_invert', r=r) for r in rates] + [dict(op='rate_invert', r=r, via='inv') for r in rates]
    pairs = list(itertools.product(rates[:40 if quick else 120], repeat=2))
    rnd.shuffle(pairs)
    for r1, r2 in pairs[:1500 if quick else 12000]:
        cs.append(dict(op='rate_mul', r1=r1, r2=r2))
        cs.append(dict(op='rate_div', r1=r1, r2=r2))
    return cs


def apply_cases(ctx, rnd):
    quick = ctx.tier == 'quick'
    cs = []
    md = dict(EUR=2, USD=2, JPY=0, KWD=3, HKD=2)
    rates = [dict(uc='EUR', tc='USD', k=0, t6=_limbs(1250000)), dict(uc='EUR', tc='USD', k=0, t6=_limbs(1098270)),
             dict(uc='USD', tc='JPY', k=0, t6=_limbs(150375000)), dict(uc='JPY', tc='EUR', k=2, t6=_limbs(612345)),
             dict(uc='KWD', tc='EUR', k=0, t6=_limbs(2990000)), dict(uc='HKD', tc='EUR', k=2, t6=_limbs(699000)),
             dict(uc='EUR', tc='KWD', k=0, t6=_limbs(333333)), dict(uc='USD', tc='EUR', k=1, t6=_limbs(9123457)),
             dict(uc='KWD', tc='JPY', k=0, t6=_limbs(480123456)),
             dict(uc='USD', tc='HKD', k=0, t6=_limbs(1000000)), dict(uc='EUR', tc='KWD', k=0, t6=_limbs(1000000))]    # pegged 1:1
    if not quick:
        rates += stored_rates(rnd, 30, ('EUR', 'USD', 'JPY', 'KWD', 'HKD'))
    for r in rates:
        for form in ('mul', 'rmul', 'div'):
            cur_ok = r['uc'] if form != 'div' else r['tc']
            for mode in MODES:
                amounts = [F(n, 10 ** md[cur_ok]) for n in ([1, 2, 3, 5, 7, 50, 125, 500, 999, 1001, 12345, -1, -5, -125, -999, 100000000]
                                                            if quick else list(range(1, 60)) + [-n for n in range(1, 30)] + [125, 500, 999, 1001, 12345, 10 ** 8, 10 ** 10 + 1])]
                for a in amounts:
                    cs.append(dict(op='money_rate', form=form, kind='mul' if form != 'div' else 'div', cur=cur_ok,
                                   an=a.numerator, ad=a.denominator, r=r, mode=mode, rep='dec'))
        # currency mismatch -> ValueError
        for cur in md:
            for form in ('mul', 'rmul', 'div'):
                cs.append(dict(op='money_rate', form=form, kind='mul' if form != 'div' else 'div', cur=cur,
                               an=5, ad=1, r=r, mode='ROUND_HALF_EVEN', rep='dec'))
        # while a money converter that knows every pair is registered: the same answers, the same rejections
        for cur in md:
            for form in ('mul', 'rmul', 'div'):
                cs.append(dict(op='money_rate', form=form, kind='mul' if form != 'div' else 'div', cur=cur,
                               an=1234, ad=100 if md[cur] else 1, r=r, mode='ROUND_HALF_EVEN', rep='dec', conv=True))
        # the identity rate of the unit currency: leaves money of that currency as it is, rejects every other currency
        for cur in md:
            for form in ('mul', 'rmul', 'div'):
                cs.append(dict(op='money_rate', form=form, kind='mul' if form != 'div' else 'div', cur=cur,
                               an=725, ad=100 if md[cur] else 1, r=r, via='identity', mode='ROUND_HALF_EVEN', rep='dec'))
        # the rate object produced by the library itself (inverted once / twice): whatever it stores is what counts
        for via in ('inv', 'inv2'):
            for form in ('mul', 'rmul', 'div'):
                uc, tc = (r['tc'], r['uc']) if via == 'inv' else (r['uc'], r['tc'])
                cur_ok = uc if form != 'div' else tc
                for mode in (MODES if not quick else MODES[::3]):
                    for n in (1, 7, 125, 999, 12345, -5, -999, 10 ** 9 + 7, -(10 ** 11) - 3):   # large: a rate off by 1e-7 shows
                        a = F(n, 10 ** md[cur_ok])
                        cs.append(dict(op='money_rate', form=form, kind='mul' if form != 'div' else 'div', cur=cur_ok,
                                       an=a.numerator, ad=a.denominator, r=r, via=via, mode=mode, rep='dec'))
    return cs


def rate_eq_cases(ctx, rnd):
    """Pairs of exchange rates built from different inputs, many of them equal (C19)."""
    cs = []
    curs = ['EUR', 'USD', 'HKD']
    base = [(1, F(9683, 10000)), (1, F(17, 2)), (1, F(5, 4)), (1, F(1, 20)), (1, F(123456, 1000000)), (1, F(89123456, 1000000))]
    for (m, t) in base:
        for uc, tc in (('USD', 'EUR'), ('EUR', 'HKD')):
            a = dict(uc=uc, tc=tc, m=V('int', m), t=V('dec', t))
            for scale in (1, 10, 100, 1000):
                for kinds in (('int', 'dec'), ('dec', 'frac'), ('frac', 'str')):
                    tk = V(kinds[1], t * scale) if kinds[1] != 'str' else V('str', text=str(t * scale) if (t * scale).denominator == 1 else '%s/%s' % ((t * scale).numerator, (t * scale).denominator))
                    b = dict(uc=uc, tc=tc, m=V(kinds[0], m * scale), t=tk)
                    cs.append(dict(op='rate_eq', a=a, b=b))
                    cs.append(dict(op='rate_eq', a=a, b=b, via='inv2'))
                    cs.append(dict(op='rate_eq', a=a, b=b, via='hashinv'))
            cs.append(dict(op='rate_eq', a=a, b=dict(uc=tc, tc=uc, m=V('int', m), t=V('dec', t))))
            if (1 / t).denominator in (1, 2, 4, 5, 8, 10, 20, 25, 50, 100):
                # the reciprocal quotation in the opposite direction is worth the same - and is another rate
                cs.append(dict(op='rate_eq', a=a, b=dict(uc=tc, tc=uc, m=V('int', m), t=V('dec', 1 / t))))
            # the same number between other currencies is another rate
            for (u2, t2) in ((uc, 'USD' if tc != 'USD' else 'HKD'), ('HKD' if uc != 'HKD' else 'USD', tc)):
                if u2 != t2:
                    cs.append(dict(op='rate_eq', a=a, b=dict(uc=u2, tc=t2, m=V('int', m), t=V('dec', t))))
            cs.append(dict(op='rate_eq', a=a, b=dict(uc=uc, tc=tc, m=V('int', m), t=V('dec', t + F(1, 1000)))))
    return cs


def brief_eq(e):
    return 'rate_eq %s vs %s' % (rate_text(e['r1']), rate_text(e['r2'])) if 'r1' in e else 'rate_eq'


def _brief_any(c):
    try:
        return brief(c) if 'brief' in globals() else _brief(c)
    except Exception:
        return json.dumps(c)[:160]


def rejudge(ctx, evs):
    """Judge recorded events once more (replay of a suite event)."""
    return _validate_suite(ctx, evs, 'replay')


def repo_suite(ctx, ops):
    """The exchange-rate calls the repository's own test suite makes (recorded by qtrace_money.py), judged by
    MoneyTrace.tla like the harness's own cases."""
    from checks import bcalccheck
    evs = [e for e in bcalccheck.suite_events(ctx) if e['op'] in ops]
    if not evs:
        ctx.fail('test suite under the tracer recorded no %s events' % sorted(ops))
        return None
    for j, e in enumerate(evs):
        if not str(e['id']).startswith('suite:'):
            e['id'] = 'suite:%s' % e['id']
    return _validate_suite(ctx, evs, 'repo-suite')


def _validate_suite(ctx, evs, what):
    byid = {e['id']: e for e in evs}
    for e in evs:
        ctx.count(json.dumps({k: v for k, v in e.items() if k != 'id'}, sort_keys=True, default=str))
    ctx.log('%s: %d exchange-rate events, validating with MoneyTrace.tla' % (what, len(evs)))
    from adapters import money
    wd_iso = os.path.join(tlc.scratch_root(), 'iso4217.json')
    if not os.path.exists(wd_iso):
        with open(wd_iso, 'w') as f:
            json.dump(money.iso_table(), f)
    chunks = [evs[k:k + 1500] for k in range(0, len(evs), 1500)]
    v = tracecheck.validate(chunks, 'MoneyTrace', tag=ctx.pid + '-suite', env={'ISO_FILE': wd_iso})
    ctx.add_trace_verdict(v, what + ' (money)')
    ctx.traces += len(chunks)
    for eid, verdict, _ in v.deviations:
        e = byid[eid]
        ctx.deviation(sig_of(e, verdict), 'recorded while the repository suite ran: %s: %s; observed %s' % (
            brief(e), verdict, obs_text(e)), dict(kind='money-suite', event=e))
    return v
