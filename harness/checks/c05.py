"""C05 - quantized types hold the nearest multiple of the quantum, rounded once."""
import random
from fractions import Fraction as F

import calccheck
import calcrun
from drivers.calcgen import Prog, world_tables, MODES
from checks import calcmodel

QUNITS = ['d', 'kd', 'bd', 'e', 'he', 'ke', 'Z0', 'Z2', 'Z3']


def programs(ctx):
    quick = ctx.tier == 'quick'
    rnd = random.Random(ctx.seed)
    types, units, by_type = world_tables(calcrun.export_world())
    progs = []
    ks = [F(1, 3), F(3, 7), F(2), F(1, 2), F(1, 10), F(-5, 6), F(7, 16)]
    for dm in MODES:
        for u in QUNITS:
            t = units[u]['t']
            qu = units[u]['quantum']
            p = Prog('c05-%s-%s' % (dm, u))
            p.setmode(dm)
            others = [w for w in by_type[t] if w != u]
            rng = range(-40, 41) if not quick else range(-24, 25)
            for j in rng:
                a = qu * F(j, 16)          # sixteenths of a quantum: every tie and near-tie
                rep = 'frac' if j % 2 else 'dec'
                p.make(1, t if j % 3 else 'Quantity', a, u, rep)       # constructor
                p.make(2, t, qu * (j // 16), u, 'dec')                   # an on-grid value
                p.num(3, ks[j % len(ks)], 'frac' if j % 2 else 'dec')
                p.bin('Mul', 2, 3, 4)                                    # arithmetic with numbers
                p.bin('Mul', 3, 2, 4)
                p.bin('Div', 2, 3, 4)
                p.bin('Add', 1, 2, 4)
                p.bin('Sub', 2, 1, 4)
                p.neg(1, 4)
                p.abs(4, 4)
                p.round(1, j % 3, 4)                                     # round(q, n) constructs an instance, too
                p.round(2, (j + 1) % 3 - 1, 4)
                if t != 'Money':
                    for w in others:
                        p.convert(2, w, 4)                               # conversion
                        p.bin('Add', 2, 4, 5)                            # mixed units
                        p.bin('Sub', 4, 1, 5)
                    p.make(5, t, qu * 3, u)
                    p.quantize(2, 5, None, 4)                            # rounding
                    p.quantize(2, 5, MODES[j % 8], 4)
            progs.append(p.d())
        # products and quotients that land in a quantized type: (d/b) * b -> d
        p = Prog('c05-%s-prod' % dm)
        p.setmode(dm)
        for j in range(-20, 21):
            p.make(1, 'DpB', F(j, 7), 'dpb' if j % 2 else 'kdpmb', 'frac')
            p.make(2, 'B', F(3, 4) if j % 3 else F(5, 1), ['b', 'cb', 'mb'][j % 3])
            p.bin('Mul', 1, 2, 3)
            p.bin('Mul', 2, 1, 3)
            p.unit(4, ['b', 'mb'][j % 2])
            p.bin('Mul', 1, 4, 3)
            p.bin('Mul', 4, 1, 3)
            p.make(5, 'Bi', F(j, 3) if j else F(1), 'bi' if j % 2 else 'kbi', 'frac')
            p.bin('Div', 1, 5, 3)
            p.make(5, 'D', F(j, 16), 'd', 'frac')
            p.pow(5, 1, 3)
        progs.append(p.d())
    # money of different currencies while a money converter is active: the converted operand must not be
    # rounded on its own (rounded once)
    for dm in MODES:
        p = Prog('c05-%s-mconv' % dm)
        p.setmode(dm)
        p.setconv(True)
        k = 0
        for (u, v) in (('Z2', 'Z3'), ('Z3', 'Z2'), ('Z2', 'Z0'), ('Z0', 'Z2'), ('Z3', 'Z0'), ('Z0', 'Z3')):
            for j in (range(-12, 40) if not quick else range(-6, 30, 2)):
                k += 1
                a = units[u]['quantum'] * (501 + 3 * j)
                b = units[v]['quantum'] * (7 * j + 2)
                p.make(1, 'Money', a, u, 'dec')
                p.make(2, 'Money', b, v, 'frac' if k % 2 else 'dec')
                p.bin('Add', 1, 2, 3)
                p.bin('Sub', 1, 2, 3)
                p.convert(2, u, 3)
                if k % 4 == 0:
                    p.cmp('lt', 1, 2)
                    p.cmp('eq', 3, 2)
        p.setconv(False)
        p.make(1, 'Money', F(5), 'Z2')
        p.make(2, 'Money', F(5), 'Z3')
        p.bin('Add', 1, 2, 3)          # converter removed: mixing is rejected again
        progs.append(p.d())
    # zero is zero: after allocations in which a portion that rounded to zero received a quantum, every way of
    # producing a zero amount in that unit still yields zero
    for dm in (MODES if not quick else MODES[::3]):
        p = Prog('c05-%s-zero' % dm)
        p.setmode(dm)
        for (t, u) in (('Money', 'Z2'), ('D', 'd'), ('Money', 'Z3'), ('E', 'he')):
            qu = units[u]['quantum']
            for n in (1, 2, 3):
                p.make(1, t, qu * n, u)
                p.num(2, F(1), 'int')
                p.num(3, F(1), 'int')
                p.num(4, F(1), 'int')
                p.alloc(1, [2, 3] if n == 1 else [2, 3, 4], True)
                p.make(5, t, F(0), u)                      # constructor
                p.make(6, t, qu * 5, u)
                p.bin('Sub', 6, 6, 5)                      # x - x
                p.num(2, F(0), 'int')
                p.bin('Mul', 6, 2, 5)                      # x * 0
                p.make(5, t, qu * F(1, 4), u, 'frac')      # rounds to zero under most modes
                p.neg(5, 5)
            # ... and one is one: three units and a quantum shared among three (a portion of exactly one unit is adjusted)
            one = qu * int(1 / qu) if qu < 1 else qu
            p.make(1, t, one * 3 + qu, u)
            p.num(2, F(1), 'int')
            p.num(3, F(1), 'int')
            p.num(4, F(1), 'int')
            p.alloc(1, [2, 3, 4], True)
            p.make(5, t, one, u)
            p.unit(6, u)
            p.num(2, one, 'frac' if F(one).denominator != 1 else 'int')
            p.bin('Mul', 2, 6, 5)                          # number * unit
            p.make(6, t, one * 2, u)
            p.num(3, F(2), 'int')
            p.bin('Div', 6, 3, 5)                          # (2 units) / 2
        progs.append(p.d())
    # allocation produces instances too: each portion a multiple of the quantum, less than one quantum from its share
    for dm in MODES:
        p = Prog('c05-%s-alloc' % dm)
        p.setmode(dm)
        for (t, u) in (('Money', 'Z2'), ('D', 'd'), ('Money', 'Z3')):
            qu = units[u]['quantum']
            cases = [(2553, [4, 6, 8, 8, 9]), (1000, [3, 2, 3]), (101, [2, 1, 1, 1, 1]), (-1503, [1, 2, 3, 5]),
                     (777, [7, 1, 1, 1]), (2501, [4, 4, 3, 3, 3])]
            cases += [(rnd.randint(1, 3000) * rnd.choice([1, 1, -1]), [rnd.randint(1, 9) for _ in range(rnd.choice([4, 5]))])
                      for _ in range(60 if quick else 400)]
            for (tot, rs) in cases:
                p.make(1, t, qu * tot, u)
                for i, r in enumerate(rs[:5]):
                    p.num(2 + i, F(r), 'int')
                regs = list(range(2, 2 + min(len(rs), 5)))
                p.alloc(1, regs, True)
                p.alloc(1, regs, False)
        progs.append(p.d())
    # an amount with nine decimals divided by the quantum 1 (where the pinned decimalfp mis-divides, DESIGN 5.2)
    p = Prog('c05-dep')
    p.make(1, 'Money', F(41), 'Z0')
    p.num(2, F(135, 512), 'frac')
    p.bin('Mul', 1, 2, 3)
    p.make(3, 'Money', F(10810546875, 10 ** 9), 'Z0')
    progs.append(p.d())
    # random behaviours mixing every producing operation and SetMode (depth 12+)
    nrand = 150 if quick else 2500
    for j in range(nrand):
        p = Prog('c05z%d' % j)
        t = rnd.choice(['D', 'E', 'Money'])
        us = by_type[t]
        live = []
        for r in (1, 2):
            u = rnd.choice(us)
            p.make(r, t, units[u]['quantum'] * F(rnd.randint(-200, 200), 16), u, rnd.choice(['dec', 'frac']))
        for step in range(14):
            c = rnd.random()
            x, y, z = rnd.choice([1, 2, 3]), rnd.choice([1, 2, 3]), rnd.choice([1, 2, 3])
            if c < 0.12:
                p.setmode(rnd.choice(MODES))
            elif c < 0.3:
                u = rnd.choice(us)
                p.make(z, t, units[u]['quantum'] * F(rnd.randint(-200, 200), 16), u, rnd.choice(['dec', 'frac']))
            elif c < 0.5:
                p.num(4, F(rnd.randint(-9, 9) or 1, rnd.choice([1, 2, 3, 4, 7, 10])), rnd.choice(['dec', 'frac']))
                p.bin(rnd.choice(['Mul', 'Div']), x, 4, z)
            elif c < 0.7:
                if t == 'Money':
                    p.bin(rnd.choice(['Add', 'Sub']), x, x, z)
                else:
                    p.bin(rnd.choice(['Add', 'Sub']), x, y, z)
            elif c < 0.85 and t != 'Money':
                p.convert(x, rnd.choice(us), z)
            elif c < 0.93:
                p.neg(x, z)
            elif t != 'Money':
                p.quantize(x, y, rnd.choice(MODES + [None]), z)
        progs.append(p.d())
    return progs


def sig(prog, ev):
    return 'Calc:%s' % ev['op']


def run(ctx):
    ctx.rule = ('quantized types D (quantum 1/8; units with per-unit quanta 1/8, 1/80, 1), E (3/4; 3/4, 1/2, 1/8), '
                'Money (1, 0.01, 0.001) x all 8 default modes x amounts on sixteenths of the unit quantum x '
                'constructor (typed and generic), * and / by numbers, + - across units, neg/abs, convert, '
                'quantize, products landing in a quantized type, unit ** 1; random behaviours interleaving SetMode.  '
                'Expected = the exact result on the stored operands rounded ONCE by Rat.RoundTo.')
    ctx.assumptions = ['15-bit rational range of the TLC model', 'decimalfp true division guarded (DESIGN 5.2)',
                       'DataVolume / ISO currencies covered by C20 / C08 on the Scale representation']
    calcmodel.laws(ctx, 'round')
    calccheck.run_programs(ctx, programs(ctx), 'quantized', sigfn=sig)
    # every DataVolume unit x producing operations x 8 modes on the predefined catalogue (BCalc.tla)
    from checks import bcalccheck
    bcalccheck.run_cases(ctx, bcalccheck.datavolume_cases(ctx), 'datavolume')
    # exchange-rate application: exact product with the stored rate, rounded once (Money.tla, big naturals)
    from checks import moneycheck
    moneycheck.judge(ctx, moneycheck.apply_cases(ctx, random.Random(ctx.seed)), 'rate-application')
    # the constructor on user currencies with arbitrary smallest fractions: numbers of every kind, text, number * unit
    from checks import c08
    moneycheck.judge(ctx, c08.construct_cases(ctx.tier == 'quick'), 'construct', codes=['EUR'])
    # conversions by a dated money converter while its default date moves from one validity period to another:
    # every lookup and every converter call after every step of every short history (RateTable.tla)
    from checks import mconvcheck
    mconvcheck.run_config(ctx, 'dated', ['y2020', 'y2021', 'sy2020'], ['x2', 'x4', 'y5', 'x2y5'], 3 if ctx.tier == 'quick' else 4)


def replay(ctx, rp):
    if rp['replay'].get('kind') == 'RateTable':
        from checks import mconvcheck
        return mconvcheck.replay(ctx, rp)
    if str(rp['replay'].get('kind')).startswith('bcalc'):
        from checks import bcalccheck
        return bcalccheck.replay(ctx, rp)
    if str(rp['replay'].get('kind')).startswith('money'):
        from checks import c09
        return c09.replay(ctx, rp)
    calccheck.replay(ctx, rp, sig)
