"""C15 - directory coherence: unique symbols, own type, definitions mean what they say."""
from checks import unitscheck

MENUS = {
    'quick': [
        ('types', ['tA', 'tB', 'tM', 'tAB', 'tA2', 'tApB', 'tBi', 'tMpA', 'tA1', 'tA2_dup2', 'tA_dupsym', 'tMpA_dup', 'tA2_symdup'], 5),
        ('partialref', ['tA', 'tB', 'tM', 'tAB', 'tABpM', 'tMpA', 'ka', 'm_ka_b'], 6),
        ('sameDef', ['tA', 'tA2', 'ka', 'ka2', 'kk', 'sq', 'ha', 'd_kk_ka', 'd_ka2_ka', 'm_ka_ka'], 6),
        ('units', ['tA', 'tB', 'tAB', 'tA2', 'ka', 'ha', 'cb', 'kab', 'ka2', 'kacb', 'sq', 'aa'], 6),
        ('terms3', ['tA', 'tB', 'ka', 'cb', 'kbc', 'kbc2', 'ha'], 6),
        ('quantized', ['tD', 'kd', 'td', 'hd', 'tA', 'ka'], 5),
        ('dupsym', ['tA', 'tB', 'tA2', 'ka', 'cb', 'ka_dupB', 'a_dup', 'empty', 'nonstr', 'xb_wrongtype', 'ka2', 'bad_dim'], 5),
        ('noref', ['tA', 'tM', 'tMpA', 'p', 'q', 'ka', 'ppa', 'ppka', 'qpa', 'p_dup'], 6),
        ('baddefs', ['tA', 'tB', 'tAB', 'ka', 'cb', 'bad_dim', 'bad_cancel', 'arity', 'wrongorder', 'onbase', 'kacb', 'm_ka_cb'], 5),
        ('numterms', ['tA', 'ka', 'milli_a', 'kilo2_a', 'ha', 'd_ka_ha'], 6),
        ('numterms2', ['tA', 'tA2', 'are', 'bad_are', 'a_one', 'ka', 'xa5'], 6),
    ],
    'thorough': [
        ('types', ['tA', 'tB', 'tM', 'tAB', 'tA2', 'tApB', 'tBi', 'tMpA', 'tA1', 'tA2_dup2', 'tA2_dup', 'tA_dupsym'], 6),
        ('units', ['tA', 'tB', 'tAB', 'tA2', 'ka', 'ha', 'ta', 'cb', 'kab', 'ka2', 'kacb', 'sq', 'aa', 'bad_dim'], 7),
        ('terms3', ['tA', 'tB', 'ka', 'cb', 'kbc', 'kbc2', 'ha', 'ta'], 7),
        ('quantized', ['tD', 'kd', 'td', 'hd', 'tA', 'ka', 'tM', 'p'], 7),
        ('noref', ['tA', 'tM', 'tMpA', 'p', 'q', 'ka', 'ha', 'ppa', 'ppka', 'qpa', 'p_dup'], 7),
    ]}


def run(ctx):
    ctx.rule = ('every history (any order, any repetition) over menus of type and unit declarations of Units.tla up to '
                'the depth bound, each transition of the TLC state graph executed once against a pristine library '
                'state; after every step: Unit(symbol) identity / owner / is_ref / scale via conversion to the '
                'reference unit / listing per type / type of Quantity(amount, unit) and Quantity("1 sym") compared '
                'with the successor state.  distinct_nontrivial = executed transitions.')
    ctx.assumptions = ['types are identified by name in the specification (a name is declared at most once)',
                       'one quantized base type in the Units menus (scaled units only)']
    for name, menu, depth in MENUS[ctx.tier]:
        unitscheck.run_menu(ctx, name, menu, depth)
    # Quantity("<amount> <symbol>") for every predefined symbol and for user symbols containing a blank
    from checks import c18
    tab = c18.spec_symbols() + c18.BLANKY
    c18.judge(ctx, c18.directory_cases(tab), 'strings', tab)
    # long random histories over the whole menu (61 items), replayed on the specification (UnitsTrace.tla)
    from checks import unitstrace
    unitstrace.run(ctx, 150 if ctx.tier == 'quick' else 3000, 30 if ctx.tier == 'quick' else 40)


def replay(ctx, rp):
    if rp['replay'].get('kind') == 'unitstrace':
        from checks import unitstrace
        return unitstrace.replay(ctx, rp)
    if rp['replay'].get('kind') == 'text':
        from checks import c18
        return c18.replay(ctx, rp)
    unitscheck.replay_path(ctx, rp)
