"""C20 - the predefined catalogue matches SI / international definitions and its docs."""
import itertools
import json
import os
import random
import subprocess
import sys
from fractions import Fraction as F

import forkpool
import tlc
import tracecheck

HERE = os.path.dirname(os.path.dirname(os.path.abspath(__file__)))


def table():
    """(alias, type) list read from Catalogue.tla through TLC (single source of truth)."""
    wd = tlc.new_workdir('CatExport')
    path = os.path.join(wd, 'cat.json')
    mod = ('---- MODULE CatExport ----\nEXTENDS Catalogue, Json, IOUtils, TLC\nVARIABLE done\n'
           'ExportSpec == done = JsonSerialize(IOEnv.CAT_JSON, [j \\in 1..NUnits |-> [s |-> UnitTable[j].s, t |-> UnitTable[j].t]])'
           ' /\\ [][UNCHANGED done]_done\n====\n')
    r = tlc.run('CatExport', cfg_text='SPECIFICATION ExportSpec\nCHECK_DEADLOCK FALSE\n', workdir=wd, workers=1,
                env={'CAT_JSON': path}, heap='1g', files={'CatExport.tla': mod})
    if not r.ok:
        raise RuntimeError('CatExport failed\n' + r.out[-2000:])
    return json.load(open(path))


def model(ctx):
    r = tlc.run('CatalogueLaws', cfg_file='CatalogueLaws.cfg', tag='CatalogueLaws', workers=4)
    ctx.add_tlc(r, 'CatalogueLaws: coherence of the hand-written SI table (chains = direct scales, compounds = '
                   'product of components, dimensions compose, reference units = 1)', exhaustive=True)


def V(x):
    from adapters.catalogue import vec
    v = vec(F(x))
    return dict(sg=v['sg'], ex=v['ex'])


AMOUNTS = [F(1), F(-7, 3), F(10) ** 12, F(10) ** -12, F(2) ** 40, F(127, 5000), F(3, 8)]


def conv_cases(tab, quick, rnd):
    by_type = {}
    for u in tab:
        by_type.setdefault(u['t'], []).append(u['s'])
    cs = []
    for t, us in by_type.items():
        if t == 'Temperature':
            continue
        for u, v in itertools.product(us, us):
            amts = AMOUNTS if not quick else [AMOUNTS[0], rnd.choice(AMOUNTS[1:])]
            for a in amts:
                if t == 'DataVolume':
                    a = F(abs(a.numerator) % 1000 + 1)     # integral amounts; off-grid results are skipped by the spec
                cs.append(dict(op='conv', u=u, v=v, a=V(a), rep='frac' if a.denominator % 3 == 0 else 'dec'))
            cs.append(dict(op='conv0', u=u, v=v, rep='dec' if len(cs) % 2 else 'frac'))
            if t != 'DataVolume' and (not quick or (us.index(u) * 7 + us.index(v)) % 3 != 1):
                a = amts[-1] if t != 'DataVolume' else F(abs(amts[-1].numerator) % 1000 + 1)
                cs.append(dict(op='conv', how='str', u=u, v=v, a=V(a)))
    # other type -> IncompatibleUnitsError
    types = list(by_type)
    for t1, t2 in itertools.permutations(types, 2):
        cs.append(dict(op='convx', u=by_type[t1][-1], v=by_type[t2][0], a=V(F(5, 2))))
        cs.append(dict(op='convx', u=by_type[t1][0], v=by_type[t2][-1], a=V(F(0) + 3)))
    return cs


def binop_cases(tab, quick, rnd, kinds, npairs=1500, powers=True):
    cs = []
    syms = [u['s'] for u in tab]
    pairs = list(itertools.product(syms, syms))
    if quick:
        pairs = rnd.sample(pairs, npairs)
    for (s1, s2) in pairs:
        for op in ('mul', 'div', 'mul'):      # each operation also after the other one (what one caches the other must not use)
            for (k1, k2) in kinds:
                a1, a2 = rnd.choice([F(3), F(1, 2), F(-4), F(8)]), rnd.choice([F(2), F(1, 4), F(16)])
                cs.append(dict(op=op, x=dict(kind=k1, s=s1, a=V(a1 if k1 == 'q' else 1)),
                               y=dict(kind=k2, s=s2, a=V(a2 if k2 == 'q' else 1))))
    for s in (syms if powers else []):
        for n in range(-3, 4):
            cs.append(dict(op='pow', x=dict(kind='u', s=s, a=V(1)), n=n))
            cs.append(dict(op='pow', x=dict(kind='q', s=s, a=V(F(2))), n=n))
    return cs


def _stage(cs):
    import qvimport
    qvimport.install('guard')
    import quantity.predefined  # noqa: F401
    from adapters import catalogue

    def one(c):
        ev = catalogue.run_case(c)
        return ev, qvimport.drain_div_events()
    rows = catalogue.doc_rows()
    return forkpool.forkmap(one, cs, batch=500), rows


def judge(ctx, cs, what, docs=True, confirm=True):
    from adapters.catalogue import alias, vec
    for j, c in enumerate(cs):
        c['id'] = '%s:%d' % (what, j)
    res, rows = forkpool.run_stage(_stage, cs)
    evs, byid, divcases = [], {}, []
    for c, r in zip(cs, res):
        if isinstance(r, dict):
            if '_harness_exc' in r:
                ctx.fail('%s harness: %s' % (what, r['_harness_exc']))
            else:
                ctx.deviation('Catalogue:crash', 'interpreter died on %s' % json.dumps(c)[:200], dict(kind='catalogue', case=c))
            continue
        e, d = r
        if 'exc' in e:
            ctx.deviation('Catalogue:%s:raises' % e['op'], '%s raised %s' % (_brief(e), e['exc']), dict(kind='catalogue', case=c))
            continue
        if e.get('skip'):          # an operand was rounded to zero at construction: nothing to judge
            ctx.skipped += 1
            continue
        if d:
            divcases.append((c, d))
        evs.append(e)
        byid[e['id']] = (c, e)
        ctx.count(e['id'])
    if docs:
        for k, (sym, val, ref) in enumerate(rows):
            v = vec(F(val))
            e = dict(op='doc', id='%s:doc%d' % (what, k), s=alias(sym), ref=alias(ref),
                     vec=dict(sg=v['sg'], ex=v['ex']), inmodel=v['inmodel'])
            evs.append(e)
            byid[e['id']] = (dict(e), e)
            ctx.count(e['id'])
        ctx.notes.append('%d documentation table rows checked' % len(rows))
        if len(rows) < 90:
            ctx.fail('only %d documentation rows parsed' % len(rows))
    ctx.log('%s: %d observations, validating with CatalogueTrace.tla' % (what, len(evs)))
    chunks = [evs[k:k + 3000] for k in range(0, len(evs), 3000)]
    v = tracecheck.validate(chunks, 'CatalogueTrace', tag=ctx.pid + '-' + what)
    ctx.add_trace_verdict(v, what)
    ctx.traces += len(chunks)
    for e in evs[:2] + evs[-2:]:
        ctx.sample(_brief(e))
    for eid, verdict, _ in v.deviations:
        c, e = byid[eid]
        ctx.deviation('Catalogue:%s:%s' % (e['op'], verdict), '%s: %s (observed %s)' % (
            _brief(e), verdict, _obs(e)), dict(kind='catalogue', case=c))
    if divcases and confirm:
        ctx.notes.append('%s: decimalfp division guard stepped in for %d case(s)' % (what, len(divcases)))
        confirm_plain(ctx, [c for c, d in divcases[:6]], '%s / %s' % (divcases[0][1][0][0], divcases[0][1][0][1]))
    return v


def confirm_plain(ctx, cs, example):
    """Run a few guard-corrected cases on the unguarded library, one process each."""
    bad = None
    evs = []
    for c in cs:
        try:
            p = subprocess.run([sys.executable, os.path.join(HERE, 'plaincat.py')], input=json.dumps(c),
                               stdout=subprocess.PIPE, stderr=subprocess.PIPE, text=True, timeout=120)
        except subprocess.TimeoutExpired:
            p = None
        if p is None or p.returncode != 0:
            bad = 'unguarded interpreter died (rc=%s) on %s' % (getattr(p, 'returncode', 'timeout'), _brief(c))
            break
        got = json.loads(p.stdout)
        if tracecheck.monstrous(got):
            bad = 'without the guard the library returns a number with thousands of digits on %s' % _brief_any(c)
            break
        evs.append(got)
    if bad is None and evs:
        v = tracecheck.validate([evs], 'CatalogueTrace', tag=ctx.pid + '-plain')
        for e in v.errors:
            ctx.fail('plain confirmation: ' + e)
        if v.deviations:
            e = [x for x in evs if x['id'] == v.deviations[0][0]][0]
            bad = 'without the guard: %s gives %s (%s)' % (_brief(e), _obs(e), v.deviations[0][1])
    if bad:
        ctx.deviation('dep:decimalfp-div9', bad + ' - decimalfp mis-divides %s' % example,
                      dict(kind='catalogue-plain', cases=cs))
    else:
        ctx.notes.append('plain confirmation: unguarded library conformed on %d case(s)' % len(cs))


def _brief(e):
    op = e['op']
    if op in ('conv', 'convx'):
        return '%s%s %s -> %s (amount %s)' % (op, ' via text' if e.get('how') == 'str' else '', e['u'], e['v'], _f(e['a']))
    if op == 'redecl':
        return 're-declare %s' % e['s']
    if op == 'conv0':
        return 'conv 0 %s -> %s' % (e['u'], e['v'])
    if op in ('mul', 'div'):
        return '%s %s[%s %s] %s[%s %s]' % (op, e['x']['kind'], _f(e['x']['a']), e['x']['s'],
                                           e['y']['kind'], _f(e['y']['a']), e['y']['s'])
    if op == 'pow':
        return 'pow %s[%s %s] ** %d' % (e['x']['kind'], _f(e['x']['a']), e['x']['s'], e['n'])
    return '%s %s' % (op, e.get('s', e.get('name', '')))


def _f(v):
    from adapters.catalogue import unvec
    try:
        return str(unvec(v))
    except Exception:
        return '?'


def _obs(e):
    r = e.get('res')
    if r:
        if r['k'] == 'e':
            return 'raise ' + r['x']
        return '%s %s %s %s' % (r['k'], _f(r['a']), r['s'], r['t'])
    if 'vec' in e:
        return '%s%s' % (_f(e['vec']), '' if e.get('inmodel', True) else ' (prime outside the model)')
    return json.dumps({k: e[k] for k in e if k not in ('id',)})[:200]


def run(ctx):
    quick = ctx.tier == 'quick'
    rnd = random.Random(ctx.seed)
    ctx.rule = ('exhaustive over the finite catalogue: every predefined unit (type, reference unit, scale via '
                '(1*u).convert(ref)), the count of exported units, every SI prefix, every row of the documentation '
                'tables with an "Equivalent in" column, every ordered pair of units per linear type x amounts '
                '{1, -7/3, 10^+-12, 2^40, 127/5000, 3/8} (quick: 2 amounts per pair), conversions into other types.  '
                'Expected values from the hand-written SI table Catalogue.tla as prime-exponent vectors.')
    ctx.assumptions = ['primes of the model {2,3,5,7,11,97,127,6073}: a value with another prime factor is reported, never guessed',
                       'decimalfp true division guarded; guard-corrected cases are re-run unguarded (DESIGN 5.2)']
    model(ctx)
    tab = table()
    cs = [dict(op='unit', s=u['s']) for u in tab] + [dict(op='count')] + [dict(op='nprefix')]
    # rejected re-declarations of predefined symbols (first, so that everything after them sees their effect, if any)
    cs = [dict(op='redecl', s=u['s']) for u in tab[:: (5 if quick else 1)]] + cs
    from_spec = ['yocto', 'zepto', 'atto', 'femto', 'pico', 'nano', 'micro', 'milli', 'centi', 'deci', 'deca',
                 'hecto', 'kilo', 'mega', 'giga', 'tera', 'peta', 'exa', 'zetta', 'yotta']
    cs += [dict(op='prefix', name=n) for n in from_spec]
    cs += conv_cases(tab, quick, rnd)
    # compound units: products and quotients of predefined units in both orders of evaluation
    cs += binop_cases(tab, True, rnd, [('u', 'u'), ('q', 'q')], npairs=300 if quick else 3000, powers=False)
    judge(ctx, cs, 'catalogue')
    from checks import c14
    c14.doc_stage(ctx)
    # conversions of quantities that came out of allocate() (DataVolume: portions adjusted by the dispersal)
    from checks import bcalccheck
    bcalccheck.run_cases(ctx, bcalccheck.alloc_convert_cases(ctx), 'allocated-portions')
    ctx.exhaustive['catalogue units/prefixes/doc rows/unit pairs'] = True


def replay(ctx, rp):
    r = rp['replay']
    if r.get('kind') == 'affine':
        from checks import c14
        c14.replay(ctx, rp)
    elif r.get('kind') == 'catalogue-plain':
        confirm_plain(ctx, r['cases'], 'replay')
    elif str(r.get('kind')).startswith('bcalc'):
        from checks import bcalccheck
        bcalccheck.replay(ctx, rp)
    else:
        judge(ctx, [dict(r['case'])], 'replay', docs=False)


def _brief_any(c):
    try:
        return brief(c) if 'brief' in globals() else _brief(c)
    except Exception:
        return json.dumps(c)[:160]
