"""Shared machinery for the checks decided with Units.tla (C15, C16, C17, C02):
TLC model checking of a menu configuration, dump of the state graph, execution
of every transition against the real library (graphreplay)."""
import json
import os

import forkpool
import graphreplay
import tlc

_ITEMS = [None]


def export_items():
    if _ITEMS[0] is None:
        wd = tlc.new_workdir('UnitsExport')
        path = os.path.join(wd, 'items.json')
        r = tlc.run('UnitsExport', cfg_file='UnitsExport.cfg', workdir=wd, workers=1,
                    env={'ITEMS_JSON': path}, heap='1g')
        if not r.ok or not os.path.exists(path):
            raise RuntimeError('UnitsExport failed:\n' + r.out[-2000:])
        with open(path) as f:
            _ITEMS[0] = json.load(f)
    return _ITEMS[0]


def _stage(dot, items, lookahead=0):
    import qvimport
    qvimport.install('guard')
    import quantity  # noqa: F401  (pristine core only)
    from adapters.units import UnitsAdapter
    g = graphreplay.load_dot(dot)
    res = graphreplay.replay(g, lambda: UnitsAdapter(items), lookahead=lookahead)
    devs = []
    for d in res['deviations']:
        labs = graphreplay.path_labels(g, res, d['src'], d['ei'], d.get('path'))
        devs.append(dict(dev=d['dev'], path=labs))
    crashes = [graphreplay.path_labels(g, res, c['src'], c['ei'], c.get('path')) for c in res['crashes']]
    return dict(edges=res['edges'], nodes=res['nodes'], nedges=g.nedges, deviations=devs,
                crashes=crashes, harness=res['harness'], tasks=res['tasks'], wall=res['wall'],
                divs=qvimport.drain_div_events(), lookahead_steps=res.get('lookahead_steps', 0),
                sample=[graphreplay.path_labels(g, res, s, 0) for s in list(g.out)[5:8] if g.out[s]])


def short_label(lab):
    import re
    m = re.match(r'^(\w+)\(\[id \|-> "([^"]*)"', lab)
    return '%s(%s)' % (m.group(1), m.group(2)) if m else lab[:60]


def run_menu(ctx, name, menu, depth, view=False, lookahead=2):
    """Model-check Units with `menu` to `depth`, then execute every transition."""
    items = export_items()
    ids = {i['id'] for i in items}
    missing = [m for m in menu if m not in ids]
    if missing:
        ctx.fail('menu %s names unknown items %s' % (name, missing))
        return
    cfg = open(tlc.SPEC_DIR + '/cfg/Units.cfg').read()
    cfg = cfg.replace('@MENU@', '{' + ', '.join('"%s"' % m for m in menu) + '}').replace('@DEPTH@', str(depth))
    wd = tlc.new_workdir('Units-' + name)
    dot = os.path.join(wd, 'graph.dot')
    r = tlc.run('Units', cfg_text=cfg, workdir=wd, tag='Units-' + name, timeout=3000, workers=1,
                extra=['-dump', 'dot,actionlabels', dot])
    ok = ctx.add_tlc(r, 'Units[%s]: %d-item menu, histories of length <= %d; SymUnique DimUnique OwnType VecType '
                        'RefUnitOfDerived CacheCoherent DefinedIffDeclared RejectedLeavesNoTrace' % (
                            name, len(menu), depth), exhaustive=True)
    if not ok:
        return
    ctx.log('Units[%s]: %d states; executing every transition against the library' % (name, r.distinct))
    res = forkpool.run_stage(_stage, dot, items, lookahead)
    os.unlink(dot)
    ctx.log('Units[%s]: %d edges executed (%d in graph), %d deviations, %.1fs' % (
        name, res['edges'], res['nedges'], len(res['deviations']), res['wall']))
    ctx.traces += res['tasks']
    ctx.evaluations += res['edges'] + res.get('lookahead_steps', 0)
    if res.get('lookahead_steps'):
        ctx.notes.append('Units[%s]: %d additional steps executed below non-tree edges (lookahead %d)' % (
            name, res['lookahead_steps'], lookahead))
    for k in range(res['edges']):
        pass
    ctx.nontrivial.update('%s:%d' % (name, k) for k in range(res['edges']))
    for s in res['sample']:
        ctx.sample(dict(menu=name, behaviour=[short_label(l) for l in s]))
    for h in res['harness']:
        ctx.fail('Units[%s] harness: %s' % (name, h.get('harness')))
    for c in res['crashes']:
        ctx.deviation('Units:crash', 'interpreter died executing ' + ' ; '.join(short_label(l) for l in c),
                      dict(kind='units', menu=menu, path=c))
    if res['edges'] < res['nedges'] and not res['deviations'] and not res['crashes']:
        ctx.fail('Units[%s]: only %d of %d transitions executed' % (name, res['edges'], res['nedges']))
    for d in res['deviations']:
        for dv in d['dev']:
            ctx.deviation(dv['sig'], 'after ' + ' ; '.join(short_label(l) for l in d['path']) + ': ' + dv['what'],
                          dict(kind='units', menu=menu, path=d['path']))
    return res


def replay_path(ctx, rp):
    """Replay one recorded path (list of action labels) and report the deviations."""
    r = rp['replay']
    items = export_items()

    def stage():
        import qvimport
        qvimport.install('guard')
        import quantity  # noqa: F401
        from adapters.units import UnitsAdapter, parse_label
        ad = UnitsAdapter(items)
        # without the graph we can only re-execute and print the outcomes
        outs = []
        for lab in r['path']:
            _, it = parse_label(lab)
            kind, obj = ad.execute(it)
            outs.append('%s -> %s %r' % (short_label(lab), kind, obj))
        return outs
    for line in forkpool.run_stage(stage):
        print('    ' + line)
    # and judge it again through the full machinery on the recorded menu
    depth = len(r['path'])
    run_menu(ctx, 'replay', r['menu'], depth)
