"""C04 - equality and ordering agree with exact reference values."""
import random
from fractions import Fraction as F

import calccheck
import calcrun
from drivers.calcgen import Prog, world_tables, CMPS
from checks import calcmodel

TYPES = ['A', 'B', 'A2', 'ApB', 'AB', 'Bi', 'DpB', 'ApBD', 'D', 'E']


def programs(ctx):
    quick = ctx.tier == 'quick'
    rnd = random.Random(ctx.seed)
    types, units, by_type = world_tables(calcrun.export_world())
    progs = []
    nmax = 8 if quick else 16
    dens = [1, 2, 3, 5] if quick else [1, 2, 3, 4, 5, 7, 8]
    amounts = sorted({F(n, d) for n in range(-nmax, nmax + 1) for d in dens})
    eps = [F(0), F(1, 1000), F(-1, 1000), F(1, 7), F(-1, 3)]
    k = 0
    for t in TYPES:
        us = by_type[t]
        for u in us:
            for v in us:
                p = Prog('c04-%s-%s-%s' % (t, u, v))
                su, sv = units[u]['scale'], units[v]['scale']
                for a in (amounts if not quick else amounts[::2]):
                    for e in eps:
                        b = a * su / sv + e          # equal across units, or just beside
                        if max(abs(b.numerator), b.denominator) > 30000:
                            continue
                        k += 1
                        p.make(1, t, a, u, 'dec' if k % 2 else 'frac')
                        p.make(2, t, b, v, 'frac' if k % 3 else 'dec')
                        for c in CMPS:
                            p.cmp(c, 1, 2)
                        if e == 0 and k % 4 == 0:
                            p.cmp('eq', 2, 1)
                            p.cmp('le', 2, 1)
                progs.append(p.d())
    # sorting: lists of 5..9 quantities of one type in mixed units
    nlists = 150 if quick else 2000
    p = Prog('c04sort0')
    for j in range(nlists):
        if len(p) > 900:
            progs.append(p.d())
            p = Prog('c04sort%d' % j)
        t = rnd.choice(TYPES)
        us = by_type[t]
        n = rnd.randint(4, 6)
        base = rnd.choice(amounts)
        for r in range(1, n + 1):
            u = rnd.choice(us)
            val = base if rnd.random() < 0.4 else rnd.choice(amounts)   # many exact ties across units
            a = val / units[u]['scale'] if rnd.random() < 0.7 else val
            if max(abs(a.numerator), a.denominator) > 30000:
                a = val
            p.make(r, t, a, u, rnd.choice(['dec', 'frac']))
        p.sort(list(range(1, n + 1)))
    progs.append(p.d())
    # quantities produced by allocate() (adjusted in place during dispersal) compared across units
    for (t, u, others) in (('D', 'd', ['kd', 'bd']), ('D', 'kd', ['d', 'bd']), ('E', 'e', ['he', 'ke']), ('E', 'he', ['e'])):
        p = Prog('c04alloc-%s-%s' % (t, u))
        qu = units[u]['quantum']
        for total in (10, 7, 11, 13, 100, -10):
            for ratios in ([1, 1, 1], [1, 2, 4], [3, 3, 1, 1]):
                p.make(1, t, qu * total, u)
                regs = []
                for i, r in enumerate(ratios[:3]):
                    p.num(2 + i, F(r), 'int')
                    regs.append(2 + i)
                p.alloc(1, regs, True, zs=[5, 6])
                for v in others:
                    sv = units[v]['scale']
                    for portion in (5, 6):
                        # an equal value, and values one quantum of the other unit beside, in the other unit
                        for k in (-1, 0, 1):
                            p.convert(portion, v, 1)
                            p.num(2, F(k), 'int')
                            p.unit(3, v)
                            p.bin('Mul', 2, 3, 3)          # k * unit v (rounded to v's grid)
                            p.bin('Add', 1, 3, 1)
                            for c in ('eq', 'lt', 'ge'):
                                p.cmp(c, portion, 1)
                                p.cmp(c, 1, portion)
        progs.append(p.d())
    # units of one type compare by their scale
    p = Prog('c04units')
    for t in TYPES + ['N', 'Money']:
        us = by_type[t]
        for u in us:
            for v in us:
                p.unit(1, u)
                p.unit(2, v)
                for c in (CMPS if t in TYPES else ['eq', 'ne']):
                    p.cmp(c, 1, 2)
    for (u, v) in (('a', 'b'), ('ka', 'a2'), ('p', 'a'), ('Z2', 'd'), ('tc', 'tk'), ('tc', 'tc')):
        p.unit(1, u)
        p.unit(2, v)
        for c in (['eq', 'ne'] if u[0] == 't' else CMPS):
            p.cmp(c, 1, 2)
    progs.append(p.d())
    # table-converted type: comparison through the affine conversion (C14 shares this)
    p = Prog('c04table')
    for (u, a) in (('tc', F(0)), ('tc', F(-40)), ('tc', F(100)), ('tk', F(5463, 20)), ('tf', F(32)),
                   ('tf', F(-40)), ('tk', F(0)), ('tf', F(-45967, 100)), ('tc', F(37, 2))):
        for (v, b) in (('tc', F(0)), ('tf', F(32)), ('tk', F(5463, 20)), ('tf', F(-40)), ('tk', F(300)),
                       ('tf', F(212)), ('tc', F(-5463, 20))):
            p.make(1, 'T', a, u)
            p.make(2, 'T', b, v, 'frac')
            for c in CMPS:
                p.cmp(c, 1, 2)
    progs.append(p.d())
    # a quantity compared with ITSELF (the same object), and quantities that share one amount object across units
    for t in ('A', 'B', 'A2', 'D'):
        p = Prog('c04self-' + t)
        us = by_type[t]
        for j, u in enumerate(us):
            qu = units[u]['quantum']
            for a in (F(0), F(3, 2) if not qu else qu * 12, F(-7, 1) if not qu else -qu * 8):
                p.make(1, t, a, u, 'dec' if j % 2 else 'frac')
                for c in ('lt', 'le', 'gt', 'ge', 'eq', 'ne'):
                    p.cmp(c, 1, 1)
                if not qu:
                    for v in us:
                        if v != u and not units[v]['quantum']:
                            p.relabel(1, v, 2, t)
                            for c in ('eq', 'ne', 'lt', 'ge'):
                                p.cmp(c, 1, 2)
                                p.cmp(c, 2, 1)
        progs.append(p.d())
    return progs


def sig(prog, ev):
    return 'Calc:%s' % ev['op']


def run(ctx):
    ctx.rule = ('per scalable type: all ordered unit pairs x amount grid x {exactly equal across units, +-1/1000, '
                '+1/7, -1/3 beside} x {Decimal, Fraction} x six operators; sorted() of random lists with many '
                'cross-unit ties; unit-vs-unit comparisons; table-converted comparisons.  Expected = the operator '
                'on exact reference values computed by Calc.  distinct_nontrivial = distinct (operation, operand '
                'values) events.')
    ctx.assumptions = ['15-bit rational range of the TLC model', 'decimalfp true division guarded (DESIGN 5.2)']
    calcmodel.laws(ctx, 'ord')
    calccheck.run_programs(ctx, programs(ctx), 'compare', sigfn=sig)
    from checks import bcalccheck
    bcalccheck.run_cases(ctx, bcalccheck.additive_cases(ctx, ('Cmp',)), 'catalogue-compare')
    bcalccheck.repo_suite(ctx, {'Cmp'})
    bcalccheck.dep_canonical(ctx, bcalccheck.DEP['C04'])


def replay(ctx, rp):
    if str(rp['replay'].get('kind')).startswith('bcalc'):
        from checks import bcalccheck
        return bcalccheck.replay(ctx, rp)
    calccheck.replay(ctx, rp, sig)
