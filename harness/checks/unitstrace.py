"""Long random declaration / operation histories validated against Units.tla (UnitsTrace.tla)."""
import random

import forkpool
import tracecheck
from checks import unitscheck


def buildable(it, types, units):
    a = it['act']
    if a == 'base':
        return it['name'] not in types
    if a == 'derived':
        return it['name'] not in types and all(t in types for t, e in it['def'])
    if a == 'scaled':
        return it['typ'] in types and it['of'] in units
    if a == 'plain':
        return it['typ'] in types
    if a == 'term':
        return it['typ'] in types and all(s in units for s, e in it['items'])
    if a == 'derive':
        return it['typ'] in types and all(s in units for s in it['items'])
    if a == 'pow':
        return it['sym'] in units
    return it['sym'] in units and it['of'] in units


def _stage(items, plans):
    import qvimport
    qvimport.install('guard')
    import quantity  # noqa: F401
    from adapters import units as uad

    def one(plan):
        hid, seed, length = plan
        rnd = random.Random(seed)
        ad_items = {i['id']: i for i in items}
        # the history is chosen step by step from what the LIBRARY has accepted so far
        from adapters.units import UnitsAdapter
        events = None
        # two passes are avoided: decide and execute in one go
        ad = UnitsAdapter(items)
        ids = []
        types, units = set(), set()
        used = {}
        evs = [dict(id='reset', eid='%s:reset' % hid)]
        for k in range(length):
            cands = [i for i in items if buildable(i, types, units)]
            if not cands:
                break
            weights = [1.0 / (1 + 3 * used.get(i['id'], 0)) * (2.5 if i['act'] in ('base', 'derived') and len(types) < 4 else 1) for i in cands]
            it = rnd.choices(cands, weights)[0]
            used[it['id']] = used.get(it['id'], 0) + 1
            ev = uad.step_event(ad, it, '%s:%d' % (hid, k))
            evs.append(ev)
            if ev['kind'] == 'accepted':
                if it['act'] in ('base', 'derived'):
                    types.add(it['name'])
                    units.update(s for s in ev['syms'])
                else:
                    units.update(ev['syms'])
            units = set(ev['syms']) | {s for s in units if s in ev['syms']}
        return evs
    return forkpool.forkmap(one, plans, batch=1)


def run(ctx, n, length, what='histories'):
    items = unitscheck.export_items()
    plans = [('h%d' % j, ctx.seed * 100003 + j, length) for j in range(n)]
    res = forkpool.run_stage(_stage, items, plans)
    hist = []
    byeid = {}
    for plan, r in zip(plans, res):
        if isinstance(r, dict):
            if '_harness_exc' in r:
                ctx.fail('%s harness: %s' % (what, r['_harness_exc']))
            else:
                ctx.deviation('Units:crash', 'interpreter died in history %s' % plan[0], dict(kind='unitstrace', plan=plan))
            continue
        hist.append(r)
        for e in r:
            byeid[e['eid']] = (plan, r)
            if e['id'] != 'reset':
                ctx.count('%s|%s' % (e['id'], '|'.join(x['id'] for x in r[1:r.index(e)])))
    ctx.log('%s: %d histories (%d steps), validating with UnitsTrace.tla' % (what, len(hist), sum(len(h) - 1 for h in hist)))
    v = tracecheck.validate(hist, 'UnitsTrace', tag=ctx.pid + '-' + what,
                            cfg_extra='CONSTANTS Menu = {}\n MaxSteps = 0\n')
    ctx.add_trace_verdict(v, what)
    ctx.traces += len(hist)
    if hist:
        ctx.sample(dict(history=[e['id'] for e in hist[0][1:12]]))
    for eid, verdict, exp in v.deviations:
        plan, r = byeid[eid]
        k = [e['eid'] for e in r].index(eid)
        e = r[k]
        ctx.deviation('UnitsTrace:%s:%s' % (e['id'], verdict.split(':', 1)[-1]),
                      'history %s: after %s : %s observed %s %s, symbols %s; specification: %s' % (
                          plan[0], ' ; '.join(x['id'] for x in r[1:k]), e['id'], e['kind'], e['res'], e['syms'], exp),
                      dict(kind='unitstrace', plan=plan, prefix=[x['id'] for x in r[1:k + 1]]))
    return v


def replay(ctx, rp):
    r = rp['replay']
    plan = tuple(r['plan'])
    items = unitscheck.export_items()
    res = forkpool.run_stage(_stage, items, [plan])
    for e in res[0][:len(r['prefix']) + 1]:
        print('    %s -> %s %s' % (e['id'], e.get('kind'), e.get('res')))
    ctx.seed = (plan[1] - int(plan[0][1:])) // 100003
    v = tracecheck.validate([res[0]], 'UnitsTrace', tag=ctx.pid + '-replay', cfg_extra='CONSTANTS Menu = {}\n MaxSteps = 0\n')
    for eid, verdict, exp in v.deviations:
        ctx.deviation('UnitsTrace:replay', '%s %s expected %s' % (eid, verdict, exp), r)
