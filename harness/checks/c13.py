"""C13 - quantize and round follow the requested rounding mode exactly."""
import random
from fractions import Fraction as F

import calccheck
import calcrun
import tlc
from drivers.calcgen import MODES, Prog


def model(ctx):
    n, d = (12, 6) if ctx.tier == 'quick' else (24, 8)
    cfg = open(tlc.SPEC_DIR + '/cfg/RatLaws.cfg').read().replace('N = 24', 'N = %d' % n).replace('D = 8', 'D = %d' % d)
    r = tlc.run('RatLaws', cfg_text=cfg, tag='RatLaws')
    ctx.add_tlc(r, 'RatLaws: defining inequalities of the 8 rounding modes on the grid |n|<=%d, d<=%d' % (n, d),
                exhaustive=True)


def programs(ctx):
    quick = ctx.tier == 'quick'
    rnd = random.Random(ctx.seed)
    progs = []
    nmax = 40 if quick else 80
    amounts = [F(n, 16) for n in range(-nmax, nmax + 1)]
    aunits = ['a', 'ka'] if quick else ['a', 'ka', 'ta']
    quanta = [F(1, 4), F(1, 2), F(1), F(3, 4), F(1, 3)] if quick else \
        [F(1, 4), F(1, 2), F(1), F(3, 4), F(5, 2), F(1, 3), F(1, 100), F(1, 8)]
    qunits = ['a', 'ha'] if quick else ['a', 'ha', 'ta']
    reps = [('dec', 'dec'), ('frac', 'frac'), ('dec', 'frac'), ('frac', 'dec')]
    k = 0
    for au in aunits:
        for q in quanta:
            for qu in qunits:
                for (ra, rq) in reps:
                    # explicit modes under the standard default
                    p = Prog('c13x%d' % k)
                    k += 1
                    p.make(2, 'A', q, qu, rq)
                    for a in amounts:
                        p.make(1, 'A', a, au, ra)
                        for m in MODES:
                            p.quantize(1, 2, m, 3, kw=(k % 2 == 0))
                    progs.append(p.d())
                # rounding=None under each configured default mode
                for ra in ('dec', 'frac'):
                    for dm in MODES:
                        p = Prog('c13d%d' % k)
                        k += 1
                        p.setmode(dm)
                        p.make(2, 'A', q, qu, ra)
                        for a in amounts:
                            p.make(1, 'A', a, au, ra)
                            p.quantize(1, 2, None, 3)
                        progs.append(p.d())
    # quanta that reach the amount's unit as a power of ten carrying trailing zeros (0.2 ha = 1.0 a, 0.02 ha = 0.10 a,
    # 0.1 ka = 1.0 a, 10 ha = 50 a): the quantum is its value, however many digits it is written with
    for (q, qu) in ((F(1, 5), 'ha'), (F(1, 50), 'ha'), (F(1, 10), 'ka'), (F(2), 'ha'), (F(1, 100), 'ka'), (F(20), 'ha')):
        for ra in ('dec', 'frac'):
            p = Prog('c13t%d' % k)
            k += 1
            p.make(2, 'A', q, qu, 'dec')
            for a in amounts[::2] + [F(n, 400) for n in range(-60, 61, 7)]:
                p.make(1, 'A', a, 'a', ra)
                for m in (MODES if not quick else MODES[k % 2::2]):
                    p.quantize(1, 2, m, 3)
            progs.append(p.d())
    # an explicitly requested mode wins over whatever default mode is configured (ties, both representations)
    for dm in MODES:
        p = Prog('c13m-' + dm)
        p.setmode(dm)
        p.make(2, 'A', F(1), 'a')
        for tie in (F(5, 2), F(-5, 2), F(1, 2), F(7, 2), F(-1, 2), F(9, 4), F(-9, 4)):
            for rep in ('frac', 'dec'):
                p.make(1, 'A', tie, 'a', rep)
                for m in MODES:
                    p.quantize(1, 2, m, 3)
        progs.append(p.d())
    # the same value held in different units, quantized one after the other with the same quantum and mode: each
    # result is in the called quantity's unit (nothing carries over from an equal quantity)
    for (q, qu) in ((F(1), 'ka'), (F(1, 2), 'a'), (F(3), 'ha')):
        p = Prog('c13e%d' % k)
        k += 1
        p.make(2, 'A', q, qu, 'dec')
        for a in amounts[::3]:
            for m in (MODES[k % 8], None):
                p.make(1, 'A', a, 'ka', 'dec')
                p.quantize(1, 2, m, 3)
                p.make(1, 'A', a * 10, 'a', 'dec')
                p.quantize(1, 2, m, 3)
                p.make(1, 'A', a * 2, 'ha', 'frac')
                p.quantize(1, 2, m, 3)
        progs.append(p.d())
    # rejections: quantum of another type, type without reference unit, plain number - whatever the amount (zero too)
    p = Prog('c13rej')
    for a in (F(7, 3), F(0), F(-1, 2)):
        p.make(1, 'A', a, 'ka')
        p.make(2, 'B', F(1, 4), 'b')
        p.make(3, 'A2', F(1, 4), 'a2')
        p.num(4, F(1, 4))
        p.unit(5, 'a')
        for y in (2, 3, 4, 5):
            p.quantize(1, y, None, 6)
            p.quantize(1, y, 'ROUND_UP', 6)
        for (t, u1, u2) in (('N', 'p', 'q'), ('N', 'p', 'p'), ('T', 'tc', 'tf'), ('T', 'tc', 'tc'),
                            ('Money', 'Z2', 'Z2'), ('Money', 'Z2', 'Z3')):
            p.make(1, t, a, u1)
            p.make(2, t, F(1, 4), u2)
            p.quantize(1, 2, None, 3)
            p.quantize(1, 2, 'ROUND_FLOOR', 3)
        # ... and a rejected call leaves the configured default mode as it was (ties under rounding=None)
        p.make(2, 'A', F(1), 'a')
        for tie in (F(5, 2), F(-7, 2), F(1, 2), F(3, 4)):
            p.make(1, 'A', tie, 'a', 'dec' if tie.denominator == 2 else 'frac')
            p.quantize(1, 2, None, 3)
    progs.append(p.d())
    # quantized types: the result is constructed like any other instance
    for dm in MODES:
        p = Prog('c13q-' + dm)
        p.setmode(dm)
        for (t, u, qs) in (('D', 'd', [F(1, 2), F(3, 8), F(1)]), ('D', 'kd', [F(1, 10), F(1, 40)]),
                           ('E', 'e', [F(3, 2), F(3)]), ('E', 'he', [F(1), F(1, 2)])):
            for q in qs:
                p.make(2, t, q, u)
                for n in range(-24, 25):
                    p.make(1, t, F(n, 16), u, 'frac' if n % 2 else 'dec')
                    p.quantize(1, 2, None, 3)
                    if dm == 'ROUND_HALF_EVEN':
                        p.quantize(1, 2, MODES[n % 8], 3)
        progs.append(p.d())
    # round(q, n)
    for au in ('a', 'ka', 'ta'):
        for rep in ('dec', 'frac'):
            p = Prog('c13r-%s-%s' % (au, rep))
            for n in range(-2, 4):
                for a in [F(k, 8) for k in range(-20, 21)] + [F(k, 2000) for k in range(-25, 26, 5)] + \
                         [F(12345, 100), F(-995, 10), F(15), F(25), F(-35), F(1, 3), F(-2, 3), F(250), F(-150)]:
                    p.make(1, 'A', a, au, rep)
                    p.round(1, n, 2)
            progs.append(p.d())
    # random cases with larger values
    nrand = 60 if quick else 400
    for j in range(nrand):
        p = Prog('c13z%d' % j)
        p.setmode(rnd.choice(MODES))
        for _ in range(40):
            au, qu = rnd.choice(['a', 'ka', 'ha', 'ta', 'da', 'xa']), rnd.choice(['a', 'ka', 'ha', 'ta', 'da'])
            a = F(rnd.randint(-300, 300), rnd.choice([1, 2, 3, 4, 5, 6, 7, 8, 10, 16, 20, 25]))
            q = F(rnd.randint(1, 40), rnd.choice([1, 2, 3, 4, 5, 8, 10, 20]))
            p.make(1, 'A', a, au, rnd.choice(['dec', 'frac']))
            p.make(2, 'A', q, qu, rnd.choice(['dec', 'frac']))
            p.quantize(1, 2, rnd.choice(MODES + [None]), 3)
            p.round(1, rnd.choice([-1, 0, 1, 2]), 3)          # under whatever default mode is configured
        progs.append(p.d())
    return progs


def sig(prog, ev):
    if ev['op'] == 'Quantize':
        return 'Calc:Quantize:%s' % ('default' if ev['rm'] == 'NONE' else ev['rm'])
    return 'Calc:' + ev['op']


def run(ctx):
    ctx.rule = ('programs over World.tla: Make amount (n/16 grid incl. all ties, decimal and fraction '
                'representation) ; Make quantum (several values in several units) ; Quantize under every '
                'explicit mode / under rounding=None for every configured default mode ; round(q,n) ; '
                'rejections.  An evaluation is one recorded public call; distinct_nontrivial counts distinct '
                '(operation, operands, mode) events that are not SetMode/Lit.')
    ctx.assumptions = ['amounts within the 15-bit rational range of the TLC model; Python rationals are '
                       'arbitrary precision so magnitude does not select other code paths',
                       'decimalfp true division guarded (DESIGN 5.2)']
    model(ctx)
    calccheck.run_programs(ctx, programs(ctx), 'quantize/round', sigfn=sig)
    # amounts within 10^-15 .. 10^-30 of a tie or of a multiple of the quantum, as Fraction and as Decimal, on the
    # predefined catalogue (BCalc.tla: big rationals, the library's result carried as witness)
    bcalccheck_cases = []
    from checks.bcalccheck import q as bq
    eps = [F(1, 3 * 10 ** 15), F(1, 10 ** 15), F(1, 7 * 10 ** 20), F(1, 10 ** 30)]
    for (u, qu, qa) in (('g', 'g', F(1)), ('g', 'g', F(3)), ('m', 'cm', F(25)), ('kg', 'g', F(500))):
        for base in (F(1, 2), F(3, 2), F(5, 2), F(1), F(2), F(-1, 2), F(-3, 2), F(-1), F(0)):
            for e in eps[:2] if ctx.tier == 'quick' else eps:
                for sgn in (1, -1):
                    # amount (in u) = (base + sgn*e) quanta
                    scale = {'g': F(1), 'kg': F(1000), 'm': F(100), 'cm': F(1)}
                    a = (base + sgn * e) * qa * scale[qu] / scale[u]
                    for m in MODES:
                        for rep in ('frac', 'dec'):
                            if rep == 'dec' and any(a.denominator % p_ == 0 for p_ in (3, 7)):
                                continue
                            qx = qa * scale[qu] / scale[u]          # the quantum in the amount's unit (for the referee)
                            bcalccheck_cases.append(dict(op='Quantize', mode='ROUND_HALF_EVEN', rm=m,
                                                         x=bq(u, a, rep), y=bq(qu, qa, 'dec'),
                                                         qx=[qx.numerator, qx.denominator]))
    from checks import bcalccheck
    bcalccheck.run_cases(ctx, bcalccheck_cases, 'near-ties', sigfn=bcalccheck.dep_quantize_referee)
    # the quantize calls of the repository's own suite (witness-based judgement on big rationals)
    from checks import bcalccheck
    bcalccheck.repo_suite(ctx, {'Quantize'})


def replay(ctx, rp):
    if str(rp['replay'].get('kind')).startswith('bcalc'):
        from checks import bcalccheck
        return bcalccheck.replay(ctx, rp)
    calccheck.replay(ctx, rp, sig)
