"""C09 - exchange rates: normal form, accuracy, inversion and triangulation."""
import random

from checks import moneycheck


def run(ctx):
    rnd = random.Random(ctx.seed)
    ctx.rule = ('ExchangeRate(unit, multiple, term, amount) for multiples {1,2,5,9,10,50,100,755,900,1000,10^6} given as '
                'int/Decimal/Fraction/str x amounts c*10^e (c in {1,1.5,2,9.999999,0.9999995,3/7,1/3,7.25}, e in -7..4) '
                'given as Decimal/Fraction/float/str, currencies as objects or codes, invalid inputs; inversion of random '
                'stored rates; products and quotients of all pairs over 4 currencies (every shared-currency pattern).  '
                'TLC judges normal form (power-of-ten multiple, >= 0.1, six decimals), accuracy |t - true*mult| <= 0.5e-6 '
                'on big naturals, rate*inverse_rate = 1, direction, rejections.')
    ctx.assumptions = ['the stored pair is read from the ExchangeRate object (unit multiple, term amount) and cross-checked '
                       'with the public rate / inverse_rate / quotation properties']
    moneycheck.model(ctx)
    moneycheck.judge(ctx, moneycheck.rate_make_cases(ctx, rnd), 'rates')
    moneycheck.judge(ctx, moneycheck.algebra_cases(ctx, rnd), 'algebra')
    # every ExchangeRate the repository's own test suite constructs, inverts, multiplies or divides
    moneycheck.repo_suite(ctx, {'rate_make', 'rate_invert', 'rate_mul', 'rate_div'})


def replay(ctx, rp):
    r = rp['replay']
    if r.get('kind') == 'money-suite':
        print('    recorded event: ' + moneycheck.brief(r['event']))
        moneycheck.rejudge(ctx, [dict(r['event'])])
    elif r.get('kind') == 'money-plain':
        import os, tlc, json
        from adapters import money
        iso = os.path.join(tlc.scratch_root(), 'iso4217.json')
        json.dump(money.iso_table(), open(iso, 'w'))
        moneycheck.confirm_plain(ctx, r['cases'], r['codes'], 'replay', iso)
    else:
        moneycheck.judge(ctx, [dict(r['case'])], 'replay', codes=r.get('codes', moneycheck.CODES))
