"""Prices (money per quantity) under exchange rates (second half of C10): for every pattern of declared
compound units EUR/kg, EUR/g, USD/kg, USD/g (+ t), every price and rate, both operand orders."""
import itertools
import random
from fractions import Fraction as F

from checks import moneycheck
from checks.moneycheck import _limbs


def cases(ctx):
    quick = ctx.tier == 'quick'
    rnd = random.Random(ctx.seed)
    allu = [('EUR', 'kg'), ('EUR', 'g'), ('USD', 'kg'), ('USD', 'g'), ('EUR', 't'), ('USD', 't'), ('JPY', 'kg')]
    rates = [dict(uc='EUR', tc='USD', k=0, t6=_limbs(1250000)), dict(uc='USD', tc='EUR', k=0, t6=_limbs(800000)),
             dict(uc='EUR', tc='USD', k=0, t6=_limbs(1098270)), dict(uc='USD', tc='JPY', k=0, t6=_limbs(150375000)),
             dict(uc='JPY', tc='EUR', k=2, t6=_limbs(612345)), dict(uc='EUR', tc='USD', k=0, t6=_limbs(1000000))]
    patterns = []
    for r in range(1, len(allu) + 1):
        for sub in itertools.combinations(allu, r):
            patterns.append(list(sub))
    if quick:
        patterns = rnd.sample(patterns, 18) + [[('EUR', 'kg'), ('USD', 'kg')], [('EUR', 'g'), ('USD', 'kg')], [('EUR', 'kg')], [('EUR', 'g'), ('USD', 'g')],
                                               [('EUR', 'g'), ('USD', 'g'), ('USD', 'kg'), ('EUR', 'kg')],
                                               [('EUR', 'kg'), ('USD', 'kg'), ('EUR', 't'), ('USD', 't')]]
    cs = []
    k = 0
    for pat in patterns:
        order = list(pat)
        if k % 2:
            order.reverse()            # declaration order varies
        decl = [dict(c=c, m=m) for c, m in order]
        for (c, m) in pat:
            for r in rates:
                for form in ('mul', 'rmul', 'div'):
                    k += 1
                    a = [F(2), F(5, 2), F(-7, 3), F(1, 8), F(1000)][k % 5]
                    cs.append(dict(op='price_rate', form=form, kind='mul' if form != 'div' else 'div', decl=decl, r=r,
                                   p=dict(c=c, m=m, n=a.numerator, d=a.denominator, a=moneycheck.qj(a), ismoney=True,
                                          rep='frac' if a.denominator == 3 else 'dec')))
        # a quantity that involves no money
        for form in ('mul', 'div'):
            cs.append(dict(op='price_rate', form=form, kind='mul' if form != 'div' else 'div', decl=decl, r=rates[0],
                           p=dict(c='EUR', m='kg', n=3, d=1, a=moneycheck.qj(3), ismoney=False)))
    for j, r in enumerate(rates[:3]):
        for form in ('mul', 'rmul'):
            for fresh in (False, True):
                cs.append(dict(op='price_late', r=r, n=5 + j, d=2, form=form, fresh=fresh, decl=[dict(c='late', m=str(j) + form + str(fresh))]))
    return cs


def run(ctx):
    cs = cases(ctx)
    # all cases of one declared set run in one process (one world per set)
    moneycheck.judge(ctx, cs, 'prices', codes=['EUR', 'USD', 'JPY'], group=lambda c: tuple((d['c'], d['m']) for d in c['decl']))


def replay(ctx, rp):
    moneycheck.judge(ctx, [dict(rp['replay']['case'])], 'replay', codes=['EUR', 'USD', 'JPY'])
