"""Prices (money per quantity) under exchange rates - placeholder until Price.tla is bound."""


def run(ctx):
    ctx.notes.append('price stage not built yet')


def replay(ctx, rp):
    pass
