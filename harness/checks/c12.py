"""C12 - converter registration is last-in-first-out and restores prior behaviour."""
import graphcheck
import tlc

CONFIGS = {
    'quick': [('money', '{"c1","c2"}', '{}', 4, 7), ('money3', '{"c1","c2","c3"}', '{}', 3, 5),
              ('norate', '{"c1","c4"}', '{}', 3, 6),
              ('generic', '{}', '{"f1","f2","f3"}', 1, 6), ('generic4', '{}', '{"f1","f3","f4"}', 1, 6),
              ('mixed', '{"c1"}', '{"f1","f2"}', 2, 5)],
    'thorough': [('money', '{"c1","c2"}', '{}', 5, 8), ('money3', '{"c1","c2","c3"}', '{}', 4, 6),
                 ('norate', '{"c1","c2","c4"}', '{}', 4, 6),
                 ('generic', '{}', '{"f1","f2","f3"}', 1, 8), ('generic4', '{}', '{"f1","f2","f3","f4"}', 1, 7),
                 ('mixed', '{"c1","c2"}', '{"f1","f2"}', 3, 5)],
}


def run(ctx):
    ctx.rule = ('every sequence (up to the step bound) over {register c, unregister c, enter c, leave normally, leave by '
                'exception} for 2-3 money converters with distinct rates and {register f, remove f} for 3 generic '
                'converter callables (one always declining), a money converter without a rate for the probed pair; every transition of the TLC state graph executed in the '
                'real library with real with-statements; after each step list(registered_converters()), the probe '
                'conversion (which identifies the converter used) and the raised/not-raised outcome are compared.')
    ctx.assumptions = ['stack depth bounded by the configuration']
    cfg0 = open(tlc.SPEC_DIR + '/cfg/ConvStack.cfg').read()
    # histories of ANY length: without the step bound the state space is still finite (depth and nesting bounded);
    # TLC reaches the fixpoint and checks every invariant and action property on it (model level only - the graph
    # is too large to execute; the binding is through the step-bounded graphs below)
    for convs, gens, maxd in ([('{"c1","c2"}', '{"f1","f2"}', 3)] if ctx.tier == 'quick' else
                              [('{"c1","c2"}', '{"f1","f2"}', 3), ('{"c1","c2","c4"}', '{"f1","f3"}', 3), ('{"c1","c2"}', '{"f1","f2","f3"}', 4)]):
        cfg = cfg0.replace('@CONVS@', convs).replace('@GENS@', gens).replace('@MAXD@', str(maxd)).replace('@STEPS@', '0')
        cfg = cfg.replace('CONSTRAINT Bound\n', '')
        r = tlc.run('ConvStack', cfg_text=cfg, tag='ConvStack-fixpoint', timeout=3000)
        ctx.add_tlc(r, 'ConvStack fixpoint (no step bound): convs=%s gens=%s depth and nesting <= %d - all histories of any '
                       'length; TopWins GenNoDup Restoration RejectedChangesNothing PopOnly DisciplinedLeaveSucceeds' % (
                           convs, gens, maxd), exhaustive=True)
    for name, convs, gens, maxd, steps in CONFIGS[ctx.tier]:
        cfg = cfg0.replace('@CONVS@', convs).replace('@GENS@', gens).replace('@MAXD@', str(maxd)).replace('@STEPS@', str(steps))
        graphcheck.run(ctx, 'ConvStack', cfg, name, ('adapters.convstack', 'make', ()),
                       'TopWins, GenNoDup, Restoration, RejectedChangesNothing, PopOnly, DisciplinedLeaveSucceeds; convs=%s gens=%s depth<=%d steps<=%d' % (
                           convs, gens, maxd, steps),
                       preload=('quantity', 'quantity.money'), replay_info=dict(cfg=cfg))


def replay(ctx, rp):
    r = rp['replay']
    import forkpool

    def stage():
        import qvimport
        qvimport.install('guard')
        import quantity.money  # noqa: F401
        from adapters import convstack
        ad = convstack.make()
        out = []
        for lab in r['path']:
            m = convstack._LABEL.match(lab.strip())
            out.append('%s -> %s; registered=%s' % (lab, ad.do(m.group(1), m.group(2)),
                                                     [ad.cname.get(id(c)) for c in ad.Money.registered_converters()]))
        return out
    for line in forkpool.run_stage(stage):
        print('    ' + line)
    cfg = r['info']['cfg']
    graphcheck.run(ctx, 'ConvStack', cfg, 'replay', ('adapters.convstack', 'make', ()), 'replay',
                   preload=('quantity', 'quantity.money'), replay_info=dict(cfg=cfg))
