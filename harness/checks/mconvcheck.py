"""RateTable.tla driver shared by C11 and C16."""
import json
import os

import graphcheck
import tlc

_TABLES = [None]


def tables():
    if _TABLES[0] is None:
        wd = tlc.new_workdir('RTExport')
        path = os.path.join(wd, 'rt.json')
        mod = ('---- MODULE RTExport ----\nEXTENDS RateTable, Json, IOUtils\nVARIABLE done\n'
               'ExportSpec == Init /\\ done = JsonSerialize(IOEnv.RT_JSON, [sp |-> SpellingOf, sl |-> SpecListOf])'
               ' /\\ [][UNCHANGED <<vars, done>>]_<<vars, done>>\n====\n')
        r = tlc.run('RTExport', cfg_text='SPECIFICATION ExportSpec\nCONSTANTS Spellings = {}\n SpecLists = {}\n MaxSteps = 0\nCHECK_DEADLOCK FALSE\n',
                    workdir=wd, workers=1, env={'RT_JSON': path}, heap='1g', files={'RTExport.tla': mod})
        if not r.ok:
            raise RuntimeError('RTExport failed\n' + r.out[-2000:])
        _TABLES[0] = json.load(open(path))
    return _TABLES[0]


def run_config(ctx, name, spellings, speclists, steps):
    t = tables()
    cfg = open(tlc.SPEC_DIR + '/cfg/RateTable.cfg').read()
    cfg = cfg.replace('@SP@', '{' + ', '.join('"%s"' % s for s in spellings) + '}')
    cfg = cfg.replace('@SL@', '{' + ', '.join('"%s"' % s for s in speclists) + '}').replace('@STEPS@', str(steps))
    return graphcheck.run(ctx, 'RateTable', cfg, name, ('adapters.ratetable', 'make', (t['sp'], t['sl'])),
                          'ObsIsFunctionOfState OneKind PeriodIsolation Reciprocal RejectedUpdateNoChange; '
                          '%d spellings x %d rate-spec lists, histories <= %d; all 63 lookups compared after every step' % (
                              len(spellings), len(speclists), steps),
                          preload=('quantity', 'quantity.money'), replay_info=dict(cfg=cfg))


def fixpoint(ctx, name, spellings, speclists):
    """RateTable without the step bound: the table is a finite set (periods x currencies x rates of the menu), so TLC
    reaches the fixpoint - every history of ANY length over the menu - and checks the invariants and the action
    property on it (model level; the binding is through the step-bounded graphs)."""
    cfg = open(tlc.SPEC_DIR + '/cfg/RateTable.cfg').read()
    cfg = cfg.replace('@SP@', '{' + ', '.join('"%s"' % s for s in spellings) + '}')
    cfg = cfg.replace('@SL@', '{' + ', '.join('"%s"' % s for s in speclists) + '}').replace('@STEPS@', '0')
    cfg = cfg.replace('CONSTRAINT Bound\n', '')
    r = tlc.run('RateTable', cfg_text=cfg, tag='RateTable-fixpoint-' + name, timeout=3000)
    ctx.add_tlc(r, 'RateTable fixpoint [%s] (no step bound): %d spellings x %d rate-spec lists, all histories of any length; '
                   'ObsIsFunctionOfState OneKind PeriodIsolation Reciprocal RejectedUpdateNoChange' % (
                       name, len(spellings), len(speclists)), exhaustive=True)
    return r


def rejected_updates(ctx):
    quick = ctx.tier == 'quick'
    run_config(ctx, 'rejects', ['none', 'y2020', 'y0', 'sybad', 'm13', 'sm13', 'sdbad', 's4', 'flt', 'm2020_1'],
               ['x2', 'y5', 'xbad0', 'x4ybad', 'bident', 'chfstr'], 2 if quick else 3)


def replay(ctx, rp):
    r = rp['replay']
    cfg = r['info']['cfg']
    t = tables()
    print('    path: ' + ' ; '.join(r['path']))
    graphcheck.run(ctx, 'RateTable', cfg, 'replay', ('adapters.ratetable', 'make', (t['sp'], t['sl'])), 'replay',
                   preload=('quantity', 'quantity.money'), replay_info=dict(cfg=cfg))
