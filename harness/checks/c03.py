"""C03 - addition, subtraction and comparison never mix quantity types; group laws."""
import itertools
import random
from fractions import Fraction as F

import calccheck
import calcrun
from drivers.calcgen import Prog, world_tables, CMPS
from checks import calcmodel

NUMREPS = ['int', 'float', 'frac', 'dec', 'stddec', 'bool']


def programs(ctx):
    quick = ctx.tier == 'quick'
    rnd = random.Random(ctx.seed)
    types, units, by_type = world_tables(calcrun.export_world())
    alltypes = list(by_type)
    progs = []
    # all ordered pairs of types (incl. equal), one or two units each: + - and the six comparisons
    k = 0
    for t1 in alltypes:
        p = Prog('c03mix-' + t1)
        for t2 in alltypes:
            for u1 in by_type[t1][:2]:
                for u2 in by_type[t2][-2:]:
                    p.make(1, t1, F(3, 2) if k % 5 else F(0), u1, 'dec')
                    p.make(2, t2, [F(3, 2), F(-7, 4), F(0), F(3, 2)][k % 4], u2, 'frac' if k % 2 else 'dec')
                    k += 1
                    p.bin('Add', 1, 2, 3)
                    p.bin('Sub', 1, 2, 3)
                    for c in CMPS:
                        p.cmp(c, 1, 2)
        progs.append(p.d())
    # quantities and plain numbers of every numeric kind, both operand orders (reflected operators)
    p = Prog('c03num')
    for t in alltypes:
        u = by_type[t][0]
        p.make(1, t, F(2), u)
        for rep in NUMREPS:
            val = F(1) if rep == 'bool' else F(2) if rep == 'int' else F(5, 2)
            p.num(2, val, rep)
            for (x, y) in ((1, 2), (2, 1)):
                p.bin('Add', x, y, 3)
                p.bin('Sub', x, y, 3)
                for c in CMPS:
                    p.cmp(c, x, y)
        p.num(2, F(0), 'int')
        p.bin('Add', 2, 1, 3)     # 0 + q (what builtin sum would do)
    progs.append(p.d())
    # same-type pairs/triples: value laws
    dens = [1, 2, 3, 8] if quick else [1, 2, 3, 4, 5, 7, 8, 10]
    nmax = 6 if quick else 12
    amounts = sorted({F(n, d) for n in range(-nmax, nmax + 1) for d in dens})
    ks = [F(2), F(1, 3), F(-3, 7), F(1, 10)]
    for t in ['A', 'B', 'A2', 'ApB', 'AB', 'Bi', 'DpB', 'D', 'E', 'Money', 'T', 'N']:
        us = by_type[t]
        ntr = 150 if quick else 1500
        p = Prog('c03law-' + t)
        for j in range(ntr):
            if len(p) > 900:
                progs.append(p.d())
                p = Prog('c03law-%s-%d' % (t, j))
            ua, ub, uc = (rnd.choice(us) for _ in range(3))
            if t in ('N', 'Money') and j % 2:
                ub = uc = ua
            a, b, c = (rnd.choice(amounts) for _ in range(3))
            p.make(1, t, a, ua, rnd.choice(['dec', 'frac']))
            p.make(2, t, b, ub, rnd.choice(['dec', 'frac']))
            p.make(3, t, c, uc, rnd.choice(['dec', 'frac']))
            p.bin('Add', 1, 2, 4)
            p.bin('Add', 2, 1, 5)
            p.cmp('eq', 4, 5)                 # commutative by value
            p.bin('Add', 4, 3, 5)             # (a+b)+c
            p.bin('Add', 2, 3, 6)
            p.bin('Add', 1, 6, 6)             # a+(b+c)
            p.cmp('eq', 5, 6)
            p.neg(1, 4)
            p.bin('Add', 1, 4, 5)             # a + (-a)
            p.bin('Sub', 1, 1, 6)
            p.cmp('eq', 5, 6)
            p.neg(2, 4)
            p.bin('Add', 1, 4, 5)             # a + (-b)
            p.bin('Sub', 1, 2, 6)             # a - b
            p.cmp('eq', 5, 6)
            p.abs(6, 4)
            p.num(4, rnd.choice(ks), rnd.choice(['dec', 'frac']))
            p.bin('Add', 1, 2, 5)
            p.bin('Mul', 4, 5, 5)             # k*(a+b)
            p.bin('Mul', 1, 4, 6)             # a*k
            p.bin('Mul', 4, 2, 3)             # k*b
            p.bin('Add', 6, 3, 6)
            p.cmp('eq', 5, 6)
            if j % 5 == 0:
                p.make(3, t, c, uc)
                p.sum([1, 2, 3], 4)
                p.sum([3], 4)
                p.sum([2, 1], 4)
        progs.append(p.d())
    # sum over mixed types / numbers
    p = Prog('c03sum')
    p.make(1, 'A', F(1), 'a')
    p.make(2, 'B', F(1), 'b')
    p.num(3, F(1))
    p.sum([1, 2], 4)
    p.sum([1, 3], 4)
    p.sum([1, 1, 2], 4)
    progs.append(p.d())
    # sums and differences of money in different currencies while a money converter is active: the exact sum of
    # the operands' values (in the left operand's currency), rounded ONCE - ties included, every default mode
    from drivers.calcgen import MODES
    for dm in (MODES if not quick else MODES[::2]):
        p = Prog('c03mc-' + dm)
        p.setmode(dm)
        p.setconv(True)
        k = 0
        for (u, v) in (('Z2', 'Z3'), ('Z3', 'Z2'), ('Z2', 'Z0'), ('Z0', 'Z2')):
            for j in (range(-12, 40) if not quick else range(-6, 30, 3)):
                k += 1
                a = units[u]['quantum'] * (1001 + j)
                b = units[v]['quantum'] * (10 * j + 5)          # converted amounts that end in a half quantum
                p.make(1, 'Money', a, u, 'dec')
                p.make(2, 'Money', b, v, 'frac' if k % 2 else 'dec')
                p.bin('Add', 1, 2, 3)
                p.bin('Add', 2, 1, 3)
                p.bin('Sub', 1, 2, 3)
                p.neg(2, 4)
                p.bin('Sub', 1, 4, 3)
        progs.append(p.d())
    return progs


def sig(prog, ev):
    return 'Calc:%s' % ev['op']


def run(ctx):
    ctx.rule = ('all ordered pairs of the 12 quantity types of World.tla x {+,-,<,<=,>,>=,==,!=}; every type x '
                'plain numbers of kinds int/float/Fraction/Decimal/decimal.Decimal/bool in both operand orders; '
                'random same-type triples in mixed units (decimal and fraction amounts): commutativity, '
                'associativity, inverse, a-b = a+(-b), distributivity, quantity.sum - every step judged by Calc.  '
                'distinct_nontrivial = distinct (operation, operand values, mode) events.')
    ctx.assumptions = ['15-bit rational range of the TLC model', 'decimalfp true division guarded (DESIGN 5.2)']
    calcmodel.laws(ctx, 'add')
    calccheck.run_programs(ctx, programs(ctx), 'add/sub/cmp', sigfn=sig)
    units_stage(ctx)
    # predefined catalogue, amounts of any magnitude (BCalc.tla, big rationals) + the repository's own suite
    from checks import bcalccheck
    bcalccheck.run_cases(ctx, bcalccheck.additive_cases(ctx, ('Add', 'Sub')), 'catalogue-additive')
    bcalccheck.repo_suite(ctx, {'Add', 'Sub', 'Neg', 'Abs'})
    bcalccheck.dep_canonical(ctx, bcalccheck.DEP['C03'])


def units_stage(ctx):
    # sums / differences / order of quantities in units of a type without reference unit, along declaration histories
    from checks import unitscheck
    unitscheck.run_menu(ctx, 'noref', ['tA', 'tM', 'tMpA', 'p', 'q', 'ka', 'ppa', 'qpa', 'ppkad'], 7 if ctx.tier == 'quick' else 8)


def replay(ctx, rp):
    if rp['replay'].get('kind') == 'units':
        from checks import unitscheck
        return unitscheck.replay_path(ctx, rp)
    if str(rp['replay'].get('kind')).startswith('bcalc'):
        from checks import bcalccheck
        return bcalccheck.replay(ctx, rp)
    calccheck.replay(ctx, rp, sig)
