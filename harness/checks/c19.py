"""C19 - objects that compare equal hash equal (quantities and units here; terms
and exchange rates are added by the Terms / Money modules)."""
import random
from fractions import Fraction as F

import calccheck
import calcrun
from drivers.calcgen import Prog, world_tables
from checks import calcmodel

TYPES = ['A', 'B', 'A2', 'ApB', 'AB', 'Bi', 'DpB', 'D', 'E']


def programs(ctx):
    quick = ctx.tier == 'quick'
    types, units, by_type = world_tables(calcrun.export_world())
    progs = []
    nmax = 6 if quick else 12
    amounts = sorted({F(n, d) for n in range(-nmax, nmax + 1) for d in (1, 2, 3, 5)})
    for t in TYPES:
        us = by_type[t]
        p = Prog('c19-' + t)
        k = 0
        for u in us:
            for v in us:
                su, sv = units[u]['scale'], units[v]['scale']
                for a in amounts:
                    b = a * su / sv
                    if max(abs(b.numerator), b.denominator) > 30000:
                        continue
                    if units[u]['quantum'] and (a / units[u]['quantum']).denominator != 1:
                        continue
                    k += 1
                    p.make(1, t, a, u, 'dec')
                    p.make(2, t, b, v, 'frac' if k % 2 else 'dec')     # equal across units / representations
                    p.hasheq(1, 2)
                    if k % 7 == 0:
                        p.make(2, t, b + 1, v)
                        p.hasheq(1, 2)
                if len(p) > 900:
                    progs.append(p.d())
                    p = Prog('c19-%s-%d' % (t, k))
        progs.append(p.d())
    # units of one type with the same scale (ha / xa), identical units, different types
    p = Prog('c19units')
    for t in TYPES + ['N', 'T', 'Money']:
        for u in by_type[t]:
            for v in by_type[t]:
                p.unit(1, u)
                p.unit(2, v)
                p.hasheq(1, 2)
    progs.append(p.d())
    # the hash of a quantity must not depend on what was hashed before: a quantity of ANOTHER type with the same
    # amount and unit scale is hashed first
    p = Prog('c19cross')
    scal = [t for t in TYPES]
    for t1 in scal:
        for t2 in scal:
            if t1 == t2:
                continue
            for u1 in by_type[t1]:
                for u2 in by_type[t2]:
                    if units[u1]['scale'] != units[u2]['scale'] or units[u1]['scale'] == 1:
                        continue
                    ref2 = [r for r in by_type[t2] if units[r]['scale'] == 1][0]
                    for a in (F(1), F(3, 2), F(-2)):
                        if any(units[x]['quantum'] and (a / units[x]['quantum']).denominator != 1 for x in (u1, u2)):
                            a = a * 8
                        if units[ref2]['quantum'] and (a * units[u2]['scale'] / units[ref2]['quantum']).denominator != 1:
                            continue
                        p.make(1, t1, a, u1)
                        p.make(2, t1, a, u1, 'frac')
                        p.hasheq(1, 2)
                        p.make(1, t2, a, u2)
                        p.make(2, t2, a * units[u2]['scale'], ref2, 'frac')
                        p.hasheq(1, 2)
    progs.append(p.d())
    # table-converted and money: equal across units only through converters
    p = Prog('c19table')
    for (u, a, v, b) in (('tc', F(0), 'tk', F(5463, 20)), ('tc', F(0), 'tf', F(32)), ('tc', F(-40), 'tf', F(-40)),
                         ('tk', F(0), 'tf', F(-45967, 100)), ('tc', F(100), 'tf', F(212)), ('tc', F(1), 'tc', F(1)),
                         ('tc', F(1), 'tk', F(1))):
        p.make(1, 'T', a, u)
        p.make(2, 'T', b, v, 'frac')
        p.hasheq(1, 2)
    progs.append(p.d())
    # zero is zero only within one scale: without a common scale, zeros in different units are different quantities
    # (own program: a deviation ends the judgement of the program it occurs in)
    p = Prog('c19zero')
    for (t, u, v) in (('T', 'tc', 'tf'), ('T', 'tc', 'tk'), ('T', 'tf', 'tk'), ('Money', 'Z2', 'Z3'), ('Money', 'Z0', 'Z2'),
                      ('N', 'p', 'q')):
        p.make(1, t, F(0), u)
        p.make(2, t, F(0), v, 'frac')
        p.hasheq(1, 2)
        p.hasheq(2, 1)
    p.make(1, 'Money', F(5), 'Z2')
    p.make(2, 'Money', F(5), 'Z3')
    p.hasheq(1, 2)
    p.make(2, 'Money', F(5), 'Z2', 'frac')
    p.hasheq(1, 2)
    progs.append(p.d())
    return progs


def sig(prog, ev):
    if ev['op'] == 'HashEq':
        kinds = []
        for op in prog['ops'][-3:-1]:
            kinds.append(op.get('cls') or ('unit' if op.get('k') == 'u' else '?'))
        # the recorded finding: equal through the table / converter (the specification agrees they are equal) but
        # hashed differently.  A wrong verdict of == itself is not that finding.
        if 'T' in kinds and ev.get('verdict', 'bad:hash') == 'bad:hash':
            return 'Calc:HashEq:table-converted'
        return 'Calc:HashEq'
    return 'Calc:%s' % ev['op']


def run(ctx):
    ctx.rule = ('pairs of quantities constructed to be equal across every ordered pair of units of each scalable '
                'type (amount * scale ratio, Decimal vs Fraction), plus off-by-one controls; all unit pairs per '
                'type (incl. same-scale units ha/xa); table-converted and money pairs.  Calc decides equality '
                '(abstract key = type + exact reference value); the check demands x == y as specified and '
                'hash(x) == hash(y), len({x, y}) == 1 whenever equal.')
    ctx.assumptions = ['15-bit rational range of the TLC model (quantities); big naturals (rates)']
    calcmodel.laws(ctx, 'ord')
    calccheck.run_programs(ctx, programs(ctx), 'hash/eq', sigfn=sig)
    # units along declaration histories: == and hash of every pair after every step (incl. equal-scale units and
    # units of a type without reference unit that are worth the same)
    from checks import unitscheck
    unitscheck.run_menu(ctx, 'uniteq', ['tA', 'tM', 'tMpA', 'p', 'ka', 'ha', 'xa5', 'ppa', 'ppa1'] +
                        ([] if ctx.tier == 'quick' else ['ppka', 'ppa10']), 6 if ctx.tier == 'quick' else 8)
    # terms: equal <=> same denotation, equal => same hash (Terms.tla)
    from checks import c07, moneycheck
    c07.judge(ctx, c07.eq_cases(ctx), 'terms-eq')
    # exchange rates built from different inputs (Money.tla)
    import random
    moneycheck.judge(ctx, moneycheck.rate_eq_cases(ctx, random.Random(ctx.seed)), 'rates-eq')


def replay(ctx, rp):
    k = rp['replay'].get('kind')
    if k == 'terms':
        from checks import c07
        c07.replay(ctx, rp)
    elif k in ('money', 'money-plain'):
        from checks import c09
        c09.replay(ctx, rp)
    elif k == 'units':
        from checks import unitscheck
        unitscheck.replay_path(ctx, rp)
    else:
        calccheck.replay(ctx, rp, sig)
