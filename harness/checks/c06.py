"""C06 - allocation conserves the total and deviates by less than one quantum."""
import random
from fractions import Fraction as F

import calccheck
import calcrun
from drivers.calcgen import Prog, world_tables, MODES
from checks import allocmodel


def programs(ctx):
    quick = ctx.tier == 'quick'
    rnd = random.Random(ctx.seed)
    types, units, by_type = world_tables(calcrun.export_world())
    progs = []
    ratio_sets = [[1], [1, 1], [1, 2], [1, 1, 1], [3, 5, 7], [F(1, 2), F(1, 3)], [F(1, 4), F(1, 4), F(1, 2)],
                  [1, 2, 3, 5], [F(1, 3), F(1, 3), F(1, 3)], [7, 1, 1, 1], [F(1, 10), F(9, 10)], [2, 2, 3, 3, 7]]
    targets = [('Money', 'Z2'), ('Money', 'Z0'), ('Money', 'Z3'), ('D', 'd'), ('D', 'kd'), ('D', 'bd'),
               ('E', 'he'), ('A', 'ka'), ('A', 'ta'), ('ApB', 'kapmb')]
    for dm in MODES:
        for (t, u) in targets:
            qu = units[u]['quantum']
            p = Prog('c06-%s-%s' % (dm, u))
            p.setmode(dm)
            step = qu if qu else F(1, 16)
            rng = sorted(set(range(-12, 41, 1 if not quick else 3)) | {-2, -1, 1, 2})    # one / two quanta over many portions
            for j in rng:
                p.make(1, t, step * j + (step * F(j % 16, 16) if not qu else 0), u, 'dec' if j % 2 else 'frac')
                for rs in ratio_sets:
                    regs = []
                    for i, r in enumerate(rs):
                        p.num(2 + (i % 5), r, 'int' if F(r).denominator == 1 else ('frac' if (i + j) % 2 else 'dec'))
                        regs.append(2 + (i % 5))
                    if len(set(regs)) < len(regs):
                        continue
                    p.alloc(1, regs, True)
                    p.alloc(1, regs, False)
            progs.append(p.d())
    # quantity ratios (one type, mixed units)
    for dm in (MODES if not quick else ['ROUND_HALF_EVEN', 'ROUND_FLOOR', 'ROUND_UP']):
        p = Prog('c06q-' + dm)
        p.setmode(dm)
        for j in range(1, 30):
            p.make(1, 'Money', F(j * 37, 100), 'Z2')
            p.make(2, 'A', F(j % 5 + 1), 'a')
            p.make(3, 'A', F(1, 2), 'ka', 'frac')
            p.make(4, 'A', F(j % 3 + 1, 3), 'ha', 'frac')      # ratio lists recur with other amounts
            p.alloc(1, [2, 3, 4], True)
            p.alloc(1, [2, 3, 4], False)
            p.make(1, 'Money', F(j * 53 + 1, 100), 'Z2')      # another amount, the very same ratios again
            p.alloc(1, [2, 3, 4], True)
            p.make(5, 'D', F(j, 8), 'd')
            p.make(6, 'D', F(3, 80), 'kd')
            p.make(1, 'D', F(j * 5, 8), 'bd')
            p.alloc(1, [5, 6], True)
            p.alloc(1, [5, 6, 5], False)
        progs.append(p.d())
    # shares with nine decimals in a zero-decimal currency (where the pinned decimalfp mis-divides, DESIGN 5.2)
    p = Prog('c06-dep')
    p.make(1, 'Money', F(41), 'Z0')
    p.num(2, F(135), 'int')
    p.num(3, F(377), 'int')
    p.alloc(1, [2, 3], True)
    p.alloc(1, [2, 3], False)
    progs.append(p.d())
    # random longer ratio lists
    nrand = 120 if quick else 2500
    for j in range(nrand):
        p = Prog('c06z%d' % j)
        p.setmode(rnd.choice(MODES))
        for _ in range(6):
            t, u = rnd.choice(targets)
            qu = units[u]['quantum'] or F(1, 8)
            p.make(1, t, qu * rnd.randint(-60, 300), u, rnd.choice(['dec', 'frac']))
            n = rnd.randint(1, 5)
            regs = list(range(2, 2 + n))
            for r in regs:
                p.num(r, F(rnd.randint(1, 12), rnd.choice([1, 1, 2, 3, 4, 10])), rnd.choice(['dec', 'frac']))
            p.alloc(1, regs, rnd.random() < 0.6)
        progs.append(p.d())
    return progs


def sig(prog, ev):
    return 'Calc:%s' % ev['op']


def run(ctx):
    ctx.rule = ('quantities of quantized (Money 1/0.01/0.001, D, E) and non-quantized types x 12 ratio lists of '
                'length 1..5 (int / Fraction / Decimal) + quantity ratios in mixed units x disperse flag x 8 default '
                'modes, amounts on and between grid points, negative totals; random longer cases.  Each observed '
                '(portions, remainder) is judged by the relation AllocOK of Calc.tla.')
    ctx.assumptions = ['15-bit rational range of the TLC model', 'decimalfp true division guarded (DESIGN 5.2)']
    allocmodel.check(ctx)
    calccheck.run_programs(ctx, programs(ctx), 'allocate', sigfn=sig)


def replay(ctx, rp):
    calccheck.replay(ctx, rp, sig)
