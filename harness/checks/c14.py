"""C14 - table (affine) converters are exact, invertible and mutually consistent."""
import itertools
import json
import os
import random
from fractions import Fraction as F

import forkpool
import tlc
import tracecheck

UN = ['degC', 'degF', 'K']
RALIAS = {'°C': 'degC', '°F': 'degF', 'K': 'K'}
CMPS = ['lt', 'le', 'gt', 'ge', 'eq', 'ne']


def qj(x):
    from adapters.money import qjson
    return qjson(F(x))


def model(ctx):
    cfg = open(tlc.SPEC_DIR + '/cfg/AffineLaws.cfg').read().replace('@NMAX@', '60' if ctx.tier == 'quick' else '400')
    r = tlc.run('AffineLaws', cfg_text=cfg, tag='AffineLaws')
    ctx.add_tlc(r, 'AffineLaws: reference temperature maps and a consistent partial table: round trip, triangle, '
                   'fixed points, monotonicity on the amount grid', exhaustive=True)


def cases(ctx):
    quick = ctx.tier == 'quick'
    rnd = random.Random(ctx.seed)
    cs = []
    nmax = 400 if quick else 2000
    amounts = [F(n, 4) for n in range(-nmax, nmax + 1, 7 if quick else 1)] + \
        [F(0), F(-40), F(32), F(100), F(212), F(27315, 100), F(-27315, 100), F(-45967, 100), F(37, 2), F(1, 3), F(-160, 9),
         F(10) ** 12, F(1, 10 ** 9) * 3]
    k = 0
    for a in amounts:
        for u, v in itertools.product(UN, UN):
            k += 1
            cs.append(dict(op='tconv', table='temp', a=qj(a), u=u, v=v, rep='dec' if a.denominator % 3 and k % 2 else 'frac'))
    # fixed points and values converting to exactly zero, comparisons and sums across units
    pts = [(F(0), 'degC'), (F(32), 'degF'), (F(27315, 100), 'K'), (F(-40), 'degC'), (F(-40), 'degF'), (F(0), 'K'),
           (F(-45967, 100), 'degF'), (F(-27315, 100), 'degC'), (F(100), 'degC'), (F(212), 'degF'), (F(37315, 100), 'K'),
           (F(-160, 9), 'degC'), (F(0), 'degF'), (F(1, 4), 'K'), (F(20), 'degC'), (F(68), 'degF'), (F(29315, 100), 'K'),
           # equal temperatures whose amounts have opposite signs
           (F(-10), 'degC'), (F(14), 'degF'), (F(26315, 100), 'K'), (F(-5, 9), 'degC'), (F(31), 'degF')]
    for (a, u), (b, v) in itertools.product(pts, pts):
        for c in (CMPS if not quick else rnd.sample(CMPS, 3)):
            cs.append(dict(op='tcmp', table='temp', a=qj(a), u=u, b=qj(b), v=v, c=c))
        cs.append(dict(op='tadd', table='temp', a=qj(a), u=u, b=qj(b), v=v, sub=bool(k % 2)))
        k += 1
    # user tables over units x, y, z: every presence pattern of the six directed pairs
    facs = [F(2), F(1, 2), F(9, 5)]
    offs = [F(0), F(32), F(-1, 2)]
    pairs = [('x', 'y'), ('y', 'x'), ('x', 'z'), ('z', 'x'), ('y', 'z'), ('z', 'y')]
    patterns = list(range(1, 64)) if not quick else rnd.sample(range(1, 64), 24) + [1, 2, 5, 21, 42, 63]
    tk = 0
    for pat in patterns:
        rows = []
        for j, (f, t) in enumerate(pairs):
            if pat >> j & 1:
                rows.append(dict(f=f, t=t, fac=qj(facs[(j + pat) % 3]), off=qj(offs[(j * 2 + pat) % 3]),
                                 frep=['frac', 'dec', 'int'][(j + pat) % 3] if facs[(j + pat) % 3].denominator in (1, 2) else 'frac',
                                 orep='int' if offs[(j * 2 + pat) % 3].denominator == 1 and (j + pat) % 2 else 'dec'))
        for r in rows:
            if r['frep'] == 'int' and F(*[1, 1]) and (sum(l * 10000 ** i for i, l in enumerate(r['fac']['d'])) != 1):
                r['frep'] = 'dec'
        tk += 1
        form = ['list', 'map', 'iter'][tk % 3]
        for a in (F(5), F(-3, 4), F(0), F(1, 3), F(32)):
            for u, v in itertools.product('xyz', 'xyz'):
                cs.append(dict(op='tconv', table='user', tkey='t%d' % tk, rows=rows, form=form, a=qj(a), u=u, v=v,
                               rep='frac' if a.denominator == 3 else 'dec'))
            # opposite direction first, then the tabulated one (a memo must not confuse them)
        for (u, v) in (('x', 'y'), ('y', 'z'), ('z', 'x')):
            cs.append(dict(op='tcmp', table='user', tkey='t%d' % tk, rows=rows, form=form, a=qj(F(7, 2)), u=v, b=qj(F(2)), v=u, c='lt'))
            cs.append(dict(op='tconv', table='user', tkey='t%d' % tk, rows=rows, form=form, a=qj(F(7, 2)), u=u, v=v))
            cs.append(dict(op='tconv', table='user', tkey='t%d' % tk, rows=rows, form=form, a=qj(F(7, 2)), u=v, v=u))
            cs.append(dict(op='tconv', table='user', tkey='t%d' % tk, rows=rows, form=form, a=qj(F(-9, 4)), u=u, v=v))
            cs.append(dict(op='tadd', table='user', tkey='t%d' % tk, rows=rows, form=form, a=qj(F(7, 2)), u=u, b=qj(F(1, 2)), v=v, sub=False))
    # two table converters on one type: the newer one answers the pairs it knows, the older one the rest
    def row(f, t, fac, off):
        return dict(f=f, t=t, fac=qj(fac), off=qj(off), frep='frac', orep='frac')
    two = [([row('x', 'y', F(2), F(1))], [row('y', 'z', F(3), F(0))]),
           ([row('x', 'y', F(2), F(1)), row('y', 'z', F(1, 2), F(4))], [row('x', 'y', F(5), F(0))]),
           ([row('x', 'y', F(9, 5), F(32))], [row('z', 'x', F(1, 4), F(-1))]),
           ([row('x', 'y', F(2), F(0)), row('x', 'z', F(3), F(0))], [])]
    # order-reversing scales (negative factor): conversion, equality and sums; ordering is left out because the
    # property does not say in whose unit two amounts on an order-reversing scale are to be compared
    neg = [[row('x', 'y', F(-1), F(100))], [row('x', 'y', F(-3, 2), F(150)), row('y', 'x', F(-2, 3), F(100))]]
    ints = [dict(f='x', t='y', fac=qj(F(5)), off=qj(F(32)), frep='int', orep='int'),
            dict(f='y', t='z', fac=qj(F(3)), off=qj(F(-7)), frep='int', orep='int')]
    for a in (F(47), F(32), F(0), F(-13), F(1, 3), F(5, 2)):
        for u, v in itertools.product('xyz', 'xyz'):
            cs.append(dict(op='tconv', table='user', tkey='ints', rows=ints, form='map', a=qj(a), u=u, v=v,
                           rep='frac' if a.denominator == 3 else ('dec' if a.denominator == 2 else 'int')))
            cs.append(dict(op='tcmp', table='user', tkey='ints', rows=ints, form='map', a=qj(a), u=u, b=qj(F(47)), v=v, c='eq'))
            cs.append(dict(op='tadd', table='user', tkey='ints', rows=ints, form='map', a=qj(a), u=u, b=qj(F(90)), v=v, sub=a < 0))
    # units defined through others (milli-x, milli-y) in a table-converted type; the text spelling of a conversion
    rows_xy = [row('x', 'y', F(9, 5), F(32))]
    for a in (F(5), F(0), F(-40), F(1, 3)):
        for u, v in itertools.product(('x', 'y', 'z', 'mx', 'my'), repeat=2):
            cs.append(dict(op='tconv', table='user', tkey='derived', rows=rows_xy, form='list', a=qj(a), u=u, v=v, rep='frac'))
            cs.append(dict(op='tconv', how='str', table='user', tkey='derived', rows=rows_xy, form='list', a=qj(a), u=u, v=v, rep='frac'))
        for u, v in (('mx', 'my'), ('my', 'mx'), ('mx', 'x')):
            cs.append(dict(op='tcmp', table='user', tkey='derived', rows=rows_xy, form='list', a=qj(a), u=u, b=qj(a), v=v, c='eq'))
            cs.append(dict(op='tcmp', table='user', tkey='derived', rows=rows_xy, form='list', a=qj(a), u=u, b=qj(a), v=v, c='lt'))
    for a in (F(20), F(0), F(27315, 100), F(-40)):
        for u, v in itertools.product(UN, UN):
            cs.append(dict(op='tconv', how='str', table='temp', a=qj(a), u=u, v=v, rep='frac'))
    # the converter of a type is replaced by another one after a pair has been converted
    for j, (r1, r2) in enumerate(((rows_xy, [row('x', 'y', F(3), F(-5))]), (rows_xy, [row('y', 'z', F(2), F(0))]),
                                  ([row('x', 'y', F(2), F(0)), row('y', 'z', F(1, 2), F(1))], [row('z', 'y', F(4), F(4))]))):
        for (u, v) in (('x', 'y'), ('y', 'x'), ('y', 'z')):
            cs.append(dict(op='treplace', table='user', tkey='repl%d%s%s' % (j, u, v), rows=r1, rows2=r2, form='list',
                           a=qj(F(5)), u=u, v=v))
    # a pure shift (factor exactly 1) tabulated in one direction only
    shift = [row('x', 'y', F(1), F(5)), row('z', 'y', F(1), F(45967, 100))]
    for a in (F(5), F(0), F(-5), F(500), F(1, 3)):
        for u, v in itertools.product('xyz', 'xyz'):
            cs.append(dict(op='tconv', table='user', tkey='shift', rows=shift, form='list', a=qj(a), u=u, v=v, rep='frac'))
            cs.append(dict(op='tcmp', table='user', tkey='shift', rows=shift, form='list', a=qj(a), u=u, b=qj(a + 5), v=v, c='le'))
            cs.append(dict(op='tadd', table='user', tkey='shift', rows=shift, form='list', a=qj(a), u=u, b=qj(F(7)), v=v, sub=True))
    for j, (r1, r2) in enumerate(two):
        key = 'two%d' % j
        for a in (F(5), F(-3, 4), F(0), F(10, 3)):
            for u, v in itertools.product('xyz', 'xyz'):
                cs.append(dict(op='tconv', table='user2', tkey=key, rows=r1, rows2=r2, form='list', a=qj(a), u=u, v=v, rep='frac'))
        for (u, v) in itertools.permutations('xyz', 2):
            for c in ('lt', 'eq', 'ge'):
                cs.append(dict(op='tcmp', table='user2', tkey=key, rows=r1, rows2=r2, form='list', a=qj(F(7, 2)), u=u, b=qj(F(2)), v=v, c=c))
            cs.append(dict(op='tadd', table='user2', tkey=key, rows=r1, rows2=r2, form='list', a=qj(F(7, 2)), u=u, b=qj(F(1, 2)), v=v, sub=True))
    for j, r1 in enumerate(neg):
        key = 'neg%d' % j
        for a in (F(10), F(90), F(0), F(-5), F(100, 3), F(50)):
            for u, v in itertools.product('xy', 'xy'):
                cs.append(dict(op='tconv', table='user', tkey=key, rows=r1, form=['list', 'map'][j], a=qj(a), u=u, v=v, rep='frac'))
                for b in (F(90), F(50), F(25)):
                    for c in ('eq', 'ne'):
                        cs.append(dict(op='tcmp', table='user', tkey=key, rows=r1, form=['list', 'map'][j], a=qj(a), u=u, b=qj(b), v=v, c=c))
                    cs.append(dict(op='tadd', table='user', tkey=key, rows=r1, form=['list', 'map'][j], a=qj(a), u=u, b=qj(b), v=v, sub=False))
    return cs


def _stage(cs):
    import qvimport
    qvimport.install('guard')
    import quantity.predefined  # noqa: F401
    from adapters import affine
    # cases of one user table must run in one process, in order: group by table key
    groups = {}
    order = []
    for c in cs:
        key = c.get('tkey', 'temp:%d' % (len(order) // 400)) if c['table'] in ('user', 'user2') else 'temp:%d' % (c['n'] // 400)
        if key not in groups:
            groups[key] = []
            order.append(key)
        groups[key].append(c)

    def one(key):
        out = []
        for c in groups[key]:
            out.append((affine.run_case(c), qvimport.drain_div_events()))
        return out
    res = forkpool.forkmap(one, order, batch=1)
    docs = affine.doc_equivalences()
    flat = {}
    for key, r in zip(order, res):
        if isinstance(r, dict):
            for c in groups[key]:
                flat[c['n']] = r
        else:
            for c, x in zip(groups[key], r):
                flat[c['n']] = x
    return [flat[c['n']] for c in cs], docs


def judge(ctx, cs, what, docs=True):
    for j, c in enumerate(cs):
        c['id'] = '%s:%d' % (what, j)
        c['n'] = j
    res, docrows = forkpool.run_stage(_stage, cs)
    evs, byid, ndiv = [], {}, 0
    for c, r in zip(cs, res):
        if isinstance(r, dict):
            if '_harness_exc' in r:
                ctx.fail('%s harness: %s' % (what, r['_harness_exc']))
            else:
                ctx.deviation('Affine:crash', 'interpreter died on %s' % brief(c), dict(kind='affine', case=c))
            continue
        e, d = r
        if 'exc' in e:
            ctx.fail('%s adapter exception: %s' % (what, e['exc']))
            continue
        ndiv += len(d)
        evs.append(e)
        byid[e['id']] = (c, e)
        ctx.count(e['id'])
    if docs:
        for k, (a, u, b, v, line) in enumerate(docrows):
            e = dict(op='tdoc', table='temp', id='%s:doc%d' % (what, k), a=qj(F(a)), u=RALIAS[u], b=qj(F(b)), v=RALIAS[v], line=line)
            evs.append(e)
            byid[e['id']] = (e, e)
            ctx.count(e['id'])
        ctx.notes.append('%d equivalences of the documentation\'s temperature table checked' % len(docrows))
        if len(docrows) < 4:
            ctx.fail('temperature rows of the documentation not found')
    if ndiv:
        ctx.notes.append('%s: decimalfp division guard stepped in %d time(s)' % (what, ndiv))
    ctx.log('%s: %d observations, validating with AffineTrace.tla' % (what, len(evs)))
    chunks = [evs[k:k + 2000] for k in range(0, len(evs), 2000)]
    v = tracecheck.validate(chunks, 'AffineTrace', tag=ctx.pid + '-' + what)
    ctx.add_trace_verdict(v, what)
    ctx.traces += len(chunks)
    for e in evs[:2] + evs[-1:]:
        ctx.sample(brief(e))
    for eid, verdict, _ in v.deviations:
        c, e = byid[eid]
        sig = 'Affine:%s:%s:%s' % (e['op'], e['table'], verdict.split(':', 1)[1] if ':' in verdict else verdict)
        ctx.deviation(sig, '%s: %s; observed %s' % (brief(e), verdict, json.dumps(e.get('obs', e.get('line')), default=str)[:160]),
                      dict(kind='affine', case=c, group=[x for x in cs if x.get('tkey') == c.get('tkey') and x['n'] <= c.get('n', 0)][-40:] if c.get('table') == 'user' else None))


def brief(e):
    from adapters.affine import unq
    if e['op'] == 'tdoc':
        return 'documentation: %s %s = %s %s' % (unq(e['a']), e['u'], unq(e['b']), e['v'])
    s = '%s[%s] %s %s' % (e['op'], e['table'], unq(e['a']), e['u'])
    if 'b' in e:
        s += ' %s %s %s' % (e.get('c', '-' if e.get('sub') else '+'), unq(e['b']), e['v'])
    else:
        s += ' -> %s' % e['v']
    if e['table'] == 'user':
        s += ' rows=' + ','.join('%s>%s:*%s%+g' % (r['f'], r['t'], unq(r['fac']), float(unq(r['off']))) for r in e['rows'])
    return s


def doc_stage(ctx):
    """The temperature rows of the module documentation (part of C20)."""
    judge(ctx, [dict(op='tconv', table='temp', a=qj(0), u='degC', v='K', rep='dec')], 'tempdoc', docs=True)


def run(ctx):
    ctx.rule = ('predefined Temperature: amounts n/4 (|n| <= 400 step 7 quick / 2000 thorough) + fixed points + 10^12, '
                '3e-9 x all 9 ordered unit pairs; all pairs of 17 marked points x six comparison operators and + / - ; '
                'rows of the documentation; user tables over 3 units: presence patterns of the 6 directed pairs '
                '(quick 30, thorough all 63) x factors {2, 1/2, 9/5} x offsets {0, 32, -1/2} x mapping / list / iterator '
                'form x 5 amounts x 9 pairs, incl. opposite-direction-first sequences.  Expected from Affine.tla '
                '(reference maps from the defining fixed points; forward / exact inverse formula).')
    ctx.assumptions = ['exact signed rationals over big naturals (no range limit)']
    model(ctx)
    judge(ctx, cases(ctx), 'tables', docs=False)


def replay(ctx, rp):
    r = rp['replay']
    cs = [dict(x) for x in (r.get('group') or [])] or [dict(r['case'])]
    judge(ctx, cs, 'replay', docs=False)
