"""TLC model checking of the laws of Calc.tla (CalcLaws.tla) - the model side
of C01, C03, C04, C05, C19."""
import tlc

CONFIGS = {
    # which: (quick, thorough) = (N, Dens, Types)
    'conv': ((6, '{1, 2, 3}', '{"A", "B", "A2", "ApB", "D"}'), (12, '{1, 2, 3, 4, 5}', '{"A", "B", "AB", "A2", "ApB", "DpB", "Bi", "D", "E"}')),
    # thorough: two configurations (the type A has ten units by now: with |n| <= 2 and three denominators its cube of
    # register contents alone has tens of millions of states)
    'add': ((1, '{1, 2}', '{"A", "ApB"}'), [(2, '{1, 2, 3}', '{"B", "A2", "ApB"}'), (1, '{1, 2, 3}', '{"A", "B"}')]),
    'ord': ((1, '{1, 2}', '{"A", "ApB", "D"}'), (3, '{1, 2, 3}', '{"A", "B", "A2", "ApB", "D"}')),
    'round': ((24, '{1, 2, 3, 16}', '{"D", "E", "Money"}'), (40, '{1, 2, 3, 5, 16}', '{"D", "E", "Money"}')),
}


def laws(ctx, which):
    confs = CONFIGS[which][0 if ctx.tier == 'quick' else 1]
    if isinstance(confs, tuple):
        confs = [confs]
    r = None
    for (n, dens, types) in confs:
        cfg = open(tlc.SPEC_DIR + '/cfg/CalcLaws.cfg').read()
        cfg = cfg.replace('@N@', str(n)).replace('@DENS@', dens).replace('@TYPES@', types).replace('@WHICH@', which)
        r = tlc.run('CalcLaws', cfg_text=cfg, tag='CalcLaws-' + which, timeout=3000)
        ctx.add_tlc(r, 'CalcLaws[%s]: laws over all register contents, |n|<=%d, denominators %s, types %s' % (
            which, n, dens, types), exhaustive=True)
    return r
