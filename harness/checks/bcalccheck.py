"""Stages decided with BCalc.tla (the predefined catalogue, exact big rationals):
(a) the repository's OWN test suite run under the tracer (qtrace_pytest) and validated event by event;
(b) drivers with amounts of any magnitude."""
import itertools
import json
import os
import random
import subprocess
import sys
import tempfile
from fractions import Fraction as F

import forkpool
import tlc
import tracecheck

HERE = os.path.dirname(os.path.dirname(os.path.abspath(__file__)))


def brief(e):
    from adapters.bcalc import unq

    def v(o):
        if o['k'] == 'q':
            return '%s %s' % (unq(o['a']), o['u'])
        if o['k'] == 'u':
            return 'unit %s' % o['u']
        if o['k'] in ('n',):
            return str(unq(o['a']))
        if o['k'] == 'e':
            return 'raise ' + o['x']
        if o['k'] == 'b':
            return str(o['b'])
        if o['k'] == 't':
            return '(%s, %s)' % (unq(o['a']), o['u'])
        return o['k']
    extra = e['to'] if e['op'] == 'Convert' else e['c'] if e['op'] == 'Cmp' else e['n'] if e['op'] == 'Pow' else \
        (e['rm'] if e['op'] == 'Quantize' else '')
    return '%s(%s, %s%s) [%s] -> %s' % (e['op'], v(e['x']), v(e['y']), (', %s' % extra) if extra != '' else '', e['mode'], v(e['res']))


def validate(ctx, evs, what, replay_kind='bcalc', sigfn=None):
    byid = {}
    for j, e in enumerate(evs):
        e['id'] = '%s:%d' % (what, j)
        byid[e['id']] = e
        ctx.count(json.dumps([e['op'], e['x'], e['y'], e['to'], e['c'], e['n'], e['rm'], e['mode']], sort_keys=True))
    ctx.log('%s: %d events, validating with BCalcTrace.tla' % (what, len(evs)))
    chunks = [evs[k:k + 1000] for k in range(0, len(evs), 1000)]
    v = tracecheck.validate(chunks, 'BCalcTrace', tag=ctx.pid + '-' + what)
    ctx.add_trace_verdict(v, what)
    ctx.traces += len(chunks)
    for e in evs[:2] + evs[-1:]:
        ctx.sample(brief(e))
    for eid, verdict, _ in v.deviations:
        e = byid[eid]
        sig = (sigfn(e) if sigfn else None) or 'BCalc:%s:%s-%s' % (e['op'], e['x']['k'], e['y']['k'])
        ctx.deviation(sig, '%s: %s' % (what, brief(e)), dict(kind=replay_kind, event=e))
    return v


_SUITE = {}


def suite_events(ctx):
    """Run the repository's test suite once under the tracer (qtrace.py, qtrace_money.py); returns all events."""
    repo = os.environ.get('VERIF_REPO', '/repo')
    if repo in _SUITE:
        return _SUITE[repo]
    fd, path = tempfile.mkstemp(prefix='qtrace-', suffix='.ndjson', dir=tlc.scratch_root())
    os.close(fd)
    env = dict(os.environ, QUANTITY_VERIF='1', QTRACE_FILE=path, VERIF_REPO=repo,
               PYTHONPATH=os.path.join(repo, 'src') + os.pathsep + HERE,
               PYTHONDONTWRITEBYTECODE='1')
    p = subprocess.run([sys.executable, '-m', 'pytest', '-q', '-p', 'no:cacheprovider', '-p', 'qtrace_pytest',
                        '-x', os.path.join(repo, 'tests')], cwd=repo, env=env, stdout=subprocess.PIPE,
                       stderr=subprocess.STDOUT, text=True, timeout=1800)
    tail = p.stdout.strip().splitlines()[-1] if p.stdout.strip() else ''
    ctx.notes.append('repository test suite under the tracer: %s' % tail)
    evs = []
    with open(path) as f:
        for line in f:
            evs.append(json.loads(line))
    os.unlink(path)
    if p.returncode not in (0, 1) or not evs:
        ctx.fail('test suite under the tracer: rc=%s, %d events\n%s' % (p.returncode, len(evs), p.stdout[-1500:]))
        evs = []
    elif p.returncode == 1:
        ctx.notes.append('NOTE: the repository suite itself reported failures under the tracer (%s)' % tail)
    _SUITE[repo] = evs
    return evs


def repo_suite(ctx, ops):
    """Validate the calls of kinds `ops` which the repository's own test suite makes (BCalcTrace.tla)."""
    evs = [e for e in suite_events(ctx) if e['op'] in ops]
    if not evs:
        ctx.fail('test suite under the tracer recorded no %s events' % sorted(ops))
        return
    validate(ctx, evs, 'repo-suite', replay_kind='bcalc-suite')


def _stage(cs):
    import qvimport
    qvimport.install('guard')
    import quantity.predefined  # noqa: F401
    from adapters import bcalc

    def one(c):
        return bcalc.run_case(c), qvimport.drain_div_events()
    return forkpool.forkmap(one, cs, batch=300)


def _round_exact(x, mode):
    """Integer nearest to the Fraction x under `mode` (referee for the DEPENDENCY only, see dep_quantize_referee)."""
    import math
    fl = math.floor(x)
    if x == fl:
        return fl
    ce, tr = fl + 1, (fl if x > 0 else fl + 1)
    aw = ce if x > 0 else fl
    twice = 2 * (x - fl)
    if mode == 'ROUND_FLOOR':
        return fl
    if mode == 'ROUND_CEILING':
        return ce
    if mode == 'ROUND_DOWN':
        return tr
    if mode == 'ROUND_UP':
        return aw
    if mode == 'ROUND_05UP':
        return aw if tr % 5 == 0 else tr
    if twice != 1:
        return fl if twice < 1 else ce
    return {'ROUND_HALF_UP': aw, 'ROUND_HALF_DOWN': tr, 'ROUND_HALF_EVEN': fl if fl % 2 == 0 else ce}[mode]


def dep_quantize_referee(e):
    """A Quantize deviation on a Decimal amount: is it decimalfp's own `Decimal.quantize` that misrounds this very
    input (the pinned 0.13.0 does for amounts with more than about 20 fractional digits)?  Then the deviation is the
    dependency's (known finding dep:decimalfp-quantize-long), otherwise it stays a violation."""
    try:
        c = e.get('case') or {}
        if e['op'] != 'Quantize' or c.get('x', {}).get('rep') != 'dec' or (c['x']['u'] != c['y']['u'] and 'qx' not in c):
            return None
        import decimal
        from decimalfp import Decimal, ROUNDING
        x, q = F(*c['x']['a']), (F(*c['qx']) if 'qx' in c else F(*c['y']['a']))
        with decimal.localcontext() as dctx:
            dctx.prec = 400
            xs = format(decimal.Decimal(x.numerator) / decimal.Decimal(x.denominator), 'f')
            qs = format(decimal.Decimal(q.numerator) / decimal.Decimal(q.denominator), 'f')
        mode = c.get('rm') or c.get('mode', 'ROUND_HALF_EVEN')
        got = F(Decimal(xs).quantize(Decimal(qs), ROUNDING[mode]))
        if got != _round_exact(x / q, mode) * q and len(xs.partition('.')[2]) > 18:
            return 'dep:decimalfp-quantize-long'
    except Exception:
        return None
    return None


def run_cases(ctx, cs, what, sigfn=None):
    res = forkpool.run_stage(_stage, cs)
    evs = []
    ndiv = 0
    for c, r in zip(cs, res):
        if isinstance(r, dict):
            if '_harness_exc' in r:
                ctx.fail('%s harness: %s' % (what, r['_harness_exc']))
            else:
                ctx.deviation('BCalc:crash', 'interpreter died on %s' % json.dumps(c)[:200], dict(kind='bcalc-case', case=c))
            continue
        e, d = r
        ndiv += len(d)
        if len(e) != 1:
            ctx.fail('%s: case %s recorded %d events' % (what, json.dumps(c)[:200], len(e)))
            continue
        e[0]['case'] = c
        evs.append(e[0])
    if ndiv:
        ctx.notes.append('%s: decimalfp division guard stepped in %d time(s)' % (what, ndiv))
    return validate(ctx, evs, what, replay_kind='bcalc-case', sigfn=sigfn)


def table():
    from checks import c20
    return c20.table()


BIG = [F(10) ** 30 + 1, F(1, 10 ** 20), F(-7, 3), F(2) ** 70, F(123456789, 1000), F(0), F(1), F(-1, 8), F(5, 16)]


def q(u, a, rep=None):
    a = F(a)
    return dict(k='q', u=u, a=[a.numerator, a.denominator], rep=rep or ('frac' if a.denominator % 3 == 0 or a.denominator % 7 == 0 else 'dec'))


def additive_cases(ctx, ops=('Add', 'Sub', 'Cmp')):
    """+, -, comparisons over the predefined catalogue with amounts of any magnitude, equal across units
    and just beside (C03 / C04)."""
    quick = ctx.tier == 'quick'
    rnd = random.Random(ctx.seed)
    tab = table()
    by_type = {}
    for u in tab:
        by_type.setdefault(u['t'], []).append(u['s'])
    from checks import c18
    scales = {}
    for u in c18.spec_symbols():
        f = F(1)
        for n, d in u['f']:
            f *= F(n, d)
        scales[u['s']] = f
    cs = []
    for t, us in by_type.items():
        pairs = list(itertools.product(us, us))
        if quick and len(pairs) > 40:
            pairs = rnd.sample(pairs, 40)
        for u, v in pairs:
            for a in (BIG if not quick else rnd.sample(BIG, 3)):
                if t == 'DataVolume':
                    a = F(abs(int(a)) % 10 ** 6 + 1, 1)
                if t == 'Temperature':
                    b = a
                else:
                    b = a * scales[u] / scales[v]          # equal across units
                for delta in (F(0), F(1, 10 ** 9)):
                    bb = b + delta if t != 'DataVolume' else b
                    if 'Add' in ops:
                        cs.append(dict(op='Add', x=q(u, a), y=q(v, bb)))
                    if 'Sub' in ops:
                        cs.append(dict(op='Sub', x=q(u, a), y=q(v, bb)))
                    if 'Cmp' in ops:
                        for c in (('lt', 'le', 'gt', 'ge', 'eq') if not quick else rnd.sample(['lt', 'le', 'gt', 'ge', 'eq'], 2)):
                            cs.append(dict(op='Cmp', c=c, x=q(u, a), y=q(v, bb)))
    # different types never mix
    types = list(by_type)
    for t1, t2 in itertools.permutations(types, 2):
        for op in ops:
            c = dict(op=op, x=q(by_type[t1][0], 5), y=q(by_type[t2][-1], F(7, 2)))
            if op == 'Cmp':
                for cc in ('lt', 'eq'):
                    cs.append(dict(c, c=cc))
            else:
                cs.append(c)
    return cs


def datavolume_cases(ctx):
    """Every DataVolume unit x producing operation x 8 modes: results on the grid of 1/8 B, rounded once (C05)."""
    quick = ctx.tier == 'quick'
    rnd = random.Random(ctx.seed)
    tab = table()
    dv = [u['s'] for u in tab if u['t'] == 'DataVolume']
    dt = [u['s'] for u in tab if u['t'] == 'DataThroughput']
    modes = ['ROUND_05UP', 'ROUND_CEILING', 'ROUND_DOWN', 'ROUND_FLOOR', 'ROUND_HALF_DOWN', 'ROUND_HALF_EVEN', 'ROUND_HALF_UP', 'ROUND_UP']
    cs = []
    k = 0
    for u in dv:
        for m in modes:
            for a in (F(1, 3), F(-5, 7), F(1, 16), F(3, 16), F(1000001, 1000), F(-1, 16)):
                k += 1
                if quick and k % 3:
                    continue
                cs.append(dict(op='Mul', mode=m, x=dict(k='n', a=[a.numerator, a.denominator], rep='frac'), y=dict(k='u', u=u, a=[1, 1])))
                cs.append(dict(op='Mul', mode=m, x=q(u, 3), y=dict(k='n', a=[a.numerator, a.denominator], rep='frac')))
                cs.append(dict(op='Div', mode=m, x=q(u, 5), y=dict(k='n', a=[a.denominator, abs(a.numerator) or 1], rep='frac')))
                v = dv[(k * 7) % len(dv)]
                cs.append(dict(op='Convert', mode=m, x=q(u, abs(int(a * 16)) + 1), to=v))
                cs.append(dict(op='Add', mode=m, x=q(u, 2), y=q(v, abs(int(a * 16)) + 1)))
                cs.append(dict(op='Mul', mode=m, x=q(dt[k % len(dt)], a), y=q(['s', 'ms', 'h', 'min'][k % 4], 3)))
    return cs


def alloc_convert_cases(ctx):
    """Portions of allocations of DataVolume amounts (quantized, dispersal adjusts portions in place), then converted
    to every other unit, divided by a unit, compared with an equal quantity in another unit (C20 / C04 / C06)."""
    tab = table()
    dv = [u['s'] for u in tab if u['t'] == 'DataVolume']
    cs = []
    k = 0
    for u in dv:
        for ratios in ([[38, 1], [5, 1], [2, 1], [15, 1]], [[1, 1], [1, 1], [1, 1]], [[1, 3], [1, 7]]):
            for idx in range(len(ratios) + 1):
                k += 1
                if ctx.tier == 'quick' and k % 2:
                    continue
                v = dv[(k * 5) % len(dv)]
                cs.append(dict(op='AllocConvert', x=q(u, 10), ratios=ratios, idx=idx, to=v))
                cs.append(dict(op='AllocDiv', x=q(u, 10), ratios=ratios, idx=idx, to='B'))
    return cs


def replay(ctx, rp):
    r = rp['replay']
    if r.get('kind') == 'bcalc-plain':
        return dep_canonical(ctx, r['cases'])
    if r.get('kind') == 'bcalc-case':
        run_cases(ctx, [r['event']['case']], 'replay')
    else:
        # an event recorded while the repository's suite ran: re-judge the recorded event
        e = dict(r['event'])
        print('    recorded event: ' + brief(e))
        validate(ctx, [e], 'replay', replay_kind='bcalc-suite')


def dep_canonical(ctx, cases):
    """Canonical inputs on which the pinned decimalfp mis-divides (DESIGN 5.2): executed once with the
    division guard (must conform) and once in a sacrificial unguarded interpreter; a deviation or crash
    there is the recorded dependency finding."""
    run_cases(ctx, [dict(c) for c in cases], 'dep-canonical-guarded')
    bad = None
    evs = []
    for c in cases:
        try:
            p = subprocess.run([sys.executable, os.path.join(HERE, 'plainbcalc.py')], input=json.dumps(c),
                               stdout=subprocess.PIPE, stderr=subprocess.PIPE, text=True, timeout=120)
        except subprocess.TimeoutExpired:
            p = None
        if p is None or p.returncode != 0:
            bad = 'unguarded interpreter died (rc=%s) on %s' % (getattr(p, 'returncode', 'timeout'), json.dumps(c)[:160])
            break
        got = json.loads(p.stdout)
        if any(tracecheck.monstrous(e) for e in got):
            bad = 'without the guard the library returns a number with thousands of digits on %s' % json.dumps(c)[:160]
            break
        evs.extend(got)
    if bad is None and evs:
        for j, e in enumerate(evs):
            e['id'] = 'plain:%d' % j
        v = tracecheck.validate([evs], 'BCalcTrace', tag=ctx.pid + '-plain')
        for e in v.errors:
            ctx.fail('plain confirmation: ' + e)
        if v.deviations:
            e = [x for x in evs if x['id'] == v.deviations[0][0]][0]
            bad = 'without the guard: ' + brief(e)
    if bad:
        ctx.deviation('dep:decimalfp-div9', bad, dict(kind='bcalc-plain', cases=cases))
    else:
        ctx.notes.append('dep-canonical: the unguarded library conformed on %d case(s)' % len(cases))


DEP = {
    'C01': [dict(op='Convert', x=q('nm', 5), to='m'), dict(op='Convert', x=q('mm3', 7), to='m3')],
    'C02': [dict(op='Mul', x=dict(k='u', u='m', a=[1, 1]), y=dict(k='u', u='nm', a=[1, 1])),
            dict(op='Div', x=q('Gb', 3), y=dict(k='n', a=[3, 1], rep='int'))],
    'C03': [dict(op='Add', x=q('m', 1), y=q('nm', 5))],
    'C04': [dict(op='Cmp', c='gt', x=q('m', 1), y=q('nm', 5))],
}
