"""TLC model checking of Alloc.tla: the dispersal loop terminates and the final
state satisfies AllocOK for every input of the configuration."""
import tlc


def check(ctx):
    quick = ctx.tier == 'quick'
    cfg = open(tlc.SPEC_DIR + '/cfg/Alloc.cfg').read()
    cfg = cfg.replace('@UNITS@', '{"Z2", "d", "kd", "ka"}' if quick else '{"Z0", "Z2", "Z3", "d", "kd", "bd", "he", "ka", "ta"}')
    cfg = cfg.replace('@JMAX@', '20' if quick else '60')
    cfg = cfg.replace('@RS@', '{1, 3, 4, 5, 6, 7, 8}' if quick else '{1, 2, 3, 4, 5, 6, 7, 8, 9, 10}')
    r = tlc.run('Alloc', cfg_text=cfg, tag='Alloc', timeout=3000)
    ctx.add_tlc(r, 'Alloc: multi-step allocation machine - NeverStuck, AtMostN, FinalOK (=AllocOK), Terminates',
                exhaustive=True)
    return r
