"""C02 - products, quotients and powers respect dimensions and scales."""
import itertools
import random
from fractions import Fraction as F

import calccheck
import calcrun
from drivers.calcgen import Prog, world_tables, MODES
from checks import unitscheck

UNITS_MENUS = {
    'quick': [('cube', ['tA', 'tA3', 'tA2', 'ka', 'p_ka_3', 'p_ka_2', 'm_ka_ka'], 6),
              ('noref', ['tA', 'tM', 'tMpA', 'p', 'q', 'ppa', 'qpa', 'd_ppa_qpa', 'm_ppa_a'], 8),
              ('noref3', ['tA', 'tM', 'tMpA', 'p', 'ka', 'ppkad', 'ppa', 'd_ppkad_ppa', 'd_ppa_ppkad'], 8),
              ('ghost', ['tA', 'tB', 'tAB', 'ka', 'cb', 'kacb_dup', 'm_ka_cb', 'm_b_ka'], 7),
              ('exist', ['tA', 'tB', 'tAB', 'tA2', 'tBi', 'ka', 'cb', 'm_ka_b', 'm_b_ka', 'm_ka_ka', 'm_ka_cb',
                         'm_b_bi', 'd_ka_b', 'd_a2_ka', 'p_ka_2', 'p_ka_m1', 'p_ka_3', 'p_a_0'], 5)],
    'thorough': [('exist', ['tA', 'tB', 'tAB', 'tA2', 'tBi', 'tApB', 'ka', 'cb', 'ha', 'm_ka_b', 'm_b_ka', 'm_ka_ka',
                            'm_ka_cb', 'm_b_bi', 'm_a_ha', 'd_ka_b', 'd_a2_ka', 'd_ka_ha', 'p_ka_2', 'p_ka_m1',
                            'p_ka_3', 'p_a_0', 'p_ha_1'], 6),
                 ('noref', ['tA', 'tM', 'tMpA', 'p', 'q', 'ka', 'ppa', 'qpa', 'm_ppa_a', 'm_ppa_ka', 'm_p_a',
                            'd_p_a', 'd_p_ka', 'd_p_q', 'd_p_p', 'm_p_q'], 6)]}


def programs(ctx):
    quick = ctx.tier == 'quick'
    rnd = random.Random(ctx.seed)
    types, units, by_type = world_tables(calcrun.export_world())
    allunits = list(units)
    progs = []
    amts = [F(3, 2), F(-7, 3), F(4), F(1, 8), F(-5, 1), F(2, 5)]
    k = 0
    for u in allunits:
        p = Prog('c02-' + u)
        for v in allunits:
            k += 1
            a, b = amts[k % 6], amts[(k // 6 + 1) % 6]
            if units[u]['quantum']:
                a = units[u]['quantum'] * (k % 7 - 3 or 2)
            if units[v]['quantum']:
                b = units[v]['quantum'] * (k % 5 - 2 or 3)
            p.make(1, units[u]['t'], a, u, 'dec' if k % 2 else 'frac')
            p.make(2, units[v]['t'], b, v, 'frac' if k % 3 else 'dec')
            p.unit(3, u)
            p.unit(4, v)
            table = 'T' in (units[u]['t'], units[v]['t'])
            for op in ('Mul', 'Div'):
                p.bin(op, 1, 2, 5)      # quantity op quantity
                if not (table and units[u]['t'] == units[v]['t']):
                    p.bin(op, 1, 4, 5)  # quantity op unit
                    p.bin(op, 3, 2, 5)  # unit op quantity
                    p.bin(op, 3, 4, 5)  # unit op unit
        # zero amounts multiply and divide like any other (a plain 0 when the dimensions cancel)
        for v in allunits:
            if units[v]['t'] == 'T' or units[u]['t'] == 'T':
                continue
            p.make(1, units[u]['t'], F(0), u, 'dec' if len(v) % 2 else 'frac')
            p.make(2, units[v]['t'], F(3, 2) if not units[v]['quantum'] else units[v]['quantum'] * 4, v)
            p.unit(4, v)
            p.bin('Div', 1, 4, 5)
            p.bin('Div', 1, 2, 5)
            p.bin('Mul', 1, 4, 5)
            p.bin('Mul', 2, 1, 5)
        progs.append(p.d())
    # after an allocation adjusted a portion that was exactly one unit (in place), products, quotients and powers
    # whose exact result is one unit are still one unit
    p = Prog('c02one')
    for (t, u, qu) in (('D', 'd', F(1, 8)), ('Money', 'Z2', F(1, 100))):
        p.make(1, t, 3 + qu, u)
        p.num(2, F(1), 'int')
        p.num(3, F(1), 'int')
        p.num(4, F(1), 'int')
        p.alloc(1, [2, 3, 4], True)
        p.make(5, t, F(2), u)
        p.num(6, F(2), 'int')
        p.bin('Div', 5, 6, 5)                 # 2 u / 2
        p.make(5, t, F(1, 2) if t == 'Money' else F(1, 2), u)
        p.bin('Mul', 5, 6, 5)                 # 1/2 u * 2
        p.unit(5, u)
        p.pow(5, 1, 6)                        # u ** 1
        if t == 'D':
            p.make(5, 'DpB', F(1), 'dpb')
            p.make(6, 'B', F(1), 'b')
            p.bin('Mul', 5, 6, 5)             # 1 d/b * 1 b
    progs.append(p.d())
    # powers and numbers
    for u in allunits:
        p = Prog('c02pow-' + u)
        t = units[u]['t']
        for j, a in enumerate(amts):
            if units[u]['quantum']:
                a = units[u]['quantum'] * (j + 1) * (-1 if j % 2 else 1)
            p.make(1, t, a, u, 'dec' if j % 2 else 'frac')
            p.unit(2, u)
            for n in range(-3, 4):
                p.pow(1, n, 3)
                if j == 0:
                    p.pow(2, n, 3)
            for kk, rep in ((F(3), 'int'), (F(1, 3), 'frac'), (F(-5, 2), 'dec'), (F(1, 2), 'float')):
                p.num(4, kk, rep)
                p.bin('Mul', 1, 4, 5)
                p.bin('Mul', 4, 1, 5)
                p.bin('Div', 1, 4, 5)
                p.bin('Div', 4, 1, 5)
                if j == 0:
                    p.bin('Mul', 2, 4, 5)
                    p.bin('Mul', 4, 2, 5)
                    p.bin('Div', 2, 4, 5)
                    p.bin('Div', 4, 2, 5)
        progs.append(p.d())
    # random expression chains whose intermediate results feed later operations
    nrand = 100 if quick else 1500
    scal = [u for u in allunits if types[units[u]['t']]['conv'] == 'scale']
    for j in range(nrand):
        p = Prog('c02z%d' % j)
        p.setmode(rnd.choice(MODES))
        for r in (1, 2, 3):
            u = rnd.choice(scal)
            a = F(rnd.randint(-40, 40) or 1, rnd.choice([1, 2, 3, 4, 5, 8]))
            if units[u]['quantum']:
                a = units[u]['quantum'] * (rnd.randint(-20, 20) or 1)
            p.make(r, units[u]['t'], a, u, rnd.choice(['dec', 'frac']))
        for _ in range(10):
            x, y, z = rnd.choice([1, 2, 3]), rnd.choice([1, 2, 3]), rnd.choice([1, 2, 3])
            c = rnd.random()
            if c < 0.75:
                p.bin(rnd.choice(['Mul', 'Div']), x, y, z)
            elif c < 0.9:
                p.pow(x, rnd.choice([-2, -1, 2, 3]), z)
            else:
                u = rnd.choice(scal)
                p.make(z, units[u]['t'], F(rnd.randint(1, 30), rnd.choice([1, 2, 3])), u)
        progs.append(p.d())
    return progs


def sig(prog, ev):
    ops = prog['ops']
    if ev['op'] in ('Mul', 'Div'):
        def kind(r):
            for op in reversed(ops[:-1]):
                if op.get('z') == r:
                    if op['op'] == 'Lit':
                        return 'unit' if op['k'] == 'u' else 'num'
                    return 'qty'
            return '?'
        kx, ky = kind(ev['x']), kind(ev['y'])
        exp = ''
        res = ev.get('res', {})
        if res.get('k') == 'e' and res.get('x') == 'TypeError' and 'num' not in (kx, ky):
            exp = ':TypeError'
        return 'Calc:%s:%s-%s%s' % (ev['op'], kx, ky, exp)
    return 'Calc:%s' % ev['op']


def run(ctx):
    ctx.rule = ('World.tla: all 35x35 ordered unit pairs x {*, /} x operand kinds {qty-qty, qty-unit, unit-qty, '
                'unit-unit}; ** n for n in -3..3 on quantities and units; * and / with numbers of 5 kinds in both '
                'orders; random expression chains under random default modes.  Expected = type with the combined '
                'dimension + exact value in reference units (rounded once for quantized result types), plain number '
                'when dimensions cancel, UndefinedResultError when no declared type has the dimension.  Units.tla '
                'menus decide which results exist as declarations come and go.')
    ctx.assumptions = ['15-bit rational range of the TLC model', 'decimalfp true division guarded (DESIGN 5.2)',
                       'predefined catalogue: see C20 (Scale vectors)']
    for name, menu, depth in UNITS_MENUS[ctx.tier]:
        unitscheck.run_menu(ctx, name, menu, depth)
    calccheck.run_programs(ctx, programs(ctx), 'mul/div/pow', sigfn=sig)
    # the repository's own test suite under the tracer: every * / ** it performs, judged by BCalc.tla
    from checks import bcalccheck
    bcalccheck.repo_suite(ctx, {'Mul', 'Div', 'Pow'})
    bcalccheck.dep_canonical(ctx, bcalccheck.DEP['C02'])
    # the predefined catalogue: ordered unit pairs x {*, /} x operand kinds, powers -3..3 of every unit
    # (quick: 1500 sampled pairs x 2 kinds, thorough: all 113^2 pairs x 4 kinds) - Catalogue.tla, Scale vectors
    from checks import c20
    quick = ctx.tier == 'quick'
    kinds = [('q', 'q'), ('u', 'u')] if quick else [('q', 'q'), ('q', 'u'), ('u', 'q'), ('u', 'u')]
    cs = c20.binop_cases(c20.table(), quick, random.Random(ctx.seed), kinds)
    c20.judge(ctx, cs, 'catalogue-products', docs=False)


def replay(ctx, rp):
    if str(rp['replay'].get('kind')).startswith('bcalc'):
        from checks import bcalccheck
        return bcalccheck.replay(ctx, rp)
    if rp['replay'].get('kind') == 'units':
        unitscheck.replay_path(ctx, rp)
    else:
        calccheck.replay(ctx, rp, sig)
