"""C07 - term algebra is an exact commutative group with a canonical form."""
import itertools
import random

import forkpool
import tlc
import tracecheck

NUMS = {'2': ([2, 1], 'int'), '3': ([3, 1], 'dec'), 'half': ([1, 2], 'frac'), '10': ([10, 1], 'dec'),
        '-1': ([-1, 1], 'int'), '3/2': ([3, 2], 'frac'), '1': ([1, 1], 'int'), '2d': ([2, 1], 'dec'),
        '4f': ([4, 1], 'frac'), '-2': ([-2, 1], 'int'), '-1d': ([-1, 1], 'dec'), '-2f': ([-2, 1], 'frac'),
        '3i': ([3, 1], 'int'), '7i': ([7, 1], 'int')}
ELS = ['x', 'y', 'p', 'q', 'kx', 'hx', 'xy', 'kxy']


def numitem(key, e):
    v, ty = NUMS[key]
    return dict(k='num', n='', v=v, e=e, ty=ty)


def elitem(n, e):
    return dict(k='el', n=n, v=[1, 1], e=e, ty='')


def model(ctx):
    quick = ctx.tier == 'quick'
    cfg = open(tlc.SPEC_DIR + '/cfg/TermsLaws.cfg').read()
    cfg = cfg.replace('@NUMS@', '{1,3,5}' if quick else '{1,2,3,4,5,6}').replace('@EMAX@', '1' if quick else '2')
    cfg = cfg.replace('@ELS@', '{"x","kx","p","q","xy"}' if quick else '{"x","y","p","q","kx","hx","xy","kxy"}')
    cfg = cfg.replace('@L@', '2').replace('@LB@', '1')
    r = tlc.run('TermsLaws', cfg_text=cfg, tag='TermsLaws', timeout=3000)
    ctx.add_tlc(r, 'TermsLaws: group laws on denotations and existence/idempotence/uniqueness of the canonical form, '
                   'all terms of length <= 2 x length <= 1 x single items', exhaustive=True)


def cases(ctx):
    quick = ctx.tier == 'quick'
    rnd = random.Random(ctx.seed)
    exps = [-2, -1, 0, 1, 2]
    nums = ['2', '3', 'half', '10', '-1', '3/2'] if quick else list(NUMS)
    els = ELS if not quick else ['x', 'y', 'p', 'q', 'kx', 'hx', 'xy', 'kxy']
    alphabet = [numitem(n, e) for n in nums for e in exps] + [elitem(n, e) for n in els for e in exps]
    small = [numitem(n, e) for n in ['2', 'half', '10'] for e in (-1, 1, 2)] + \
            [elitem(n, e) for n in els for e in (-1, 1, 2)]
    out = []
    terms1 = [[a] for a in alphabet]
    terms2 = [[a, b] for a in alphabet for b in alphabet]
    terms3 = [[a, b, c] for a in small for b in small for c in small]
    if quick:
        terms2 = rnd.sample(terms2, 2500) + [[a, b] for a in small for b in small]
        terms3 = rnd.sample(terms3, 3000)
    elif len(terms3) > 40000:
        terms3 = rnd.sample(terms3, 40000)
    allterms = [[]] + terms1 + terms2 + terms3
    for t in allterms:
        out.append(dict(op='make', t=t))
        out.append(dict(op='norm', t=t))
    # pairs: == / hash / * / /
    short = [[]] + terms1 + [[a, b] for a in small for b in small]
    npairs = 12000 if quick else 150000
    for _ in range(npairs):
        a, b = rnd.choice(short), rnd.choice(short)
        c = rnd.random()
        if c < 0.4:
            out.append(dict(op='eq', a=a, b=b))
        elif c < 0.7:
            out.append(dict(op='mul', a=a, b=b))
        else:
            out.append(dict(op='div', a=a, b=b))
    # pairs built to be equal: permutations, split exponents, expanded definitions
    for t in (terms2 if quick else terms2[::3]):
        out.append(dict(op='eq', a=t, b=t[::-1]))
    expand = {'kx': [numitem('10', 1), elitem('x', 1)], 'hx': [numitem('10', 1), numitem('half', 1), elitem('x', 1)],
              'xy': [elitem('x', 1), elitem('y', -1)], 'kxy': [elitem('kx', 1), elitem('y', -1)]}
    for n, ex in expand.items():
        for e in (1, -1, 2):
            exe = [dict(i, e=i['e'] * e) for i in ex]
            out.append(dict(op='eq', a=[elitem(n, e)], b=exe))
            out.append(dict(op='eq', a=[elitem(n, e), elitem('p', 1)], b=[elitem('p', 1)] + exe))
    for n in nums:
        out.append(dict(op='eq', a=[numitem(n, 2)], b=[numitem(n, 1), numitem(n, 1)]))
        out.append(dict(op='eq', a=[numitem(n, -1), elitem('x', 1)], b=[elitem('x', 1), numitem(n, -1)]))
    out.append(dict(op='eq', a=[numitem('2d', 2)], b=[numitem('4f', 1)]))
    # powers, reciprocal, numbers
    for t in terms1 + [[a, b] for a in small for b in small][:: (3 if quick else 1)]:
        for n in (-3, -2, -1, 0, 1, 2, 3):
            out.append(dict(op='pow', a=t, n=n))
        out.append(dict(op='pow', a=t, n=-1, recip=True))
        for kk in ('2', 'half', '3/2', '-1', '10'):
            v, ty = NUMS[kk]
            out.append(dict(op='mulnum', a=t, k=v, kty=ty, left=bool(len(out) % 2)))
            out.append(dict(op='rdiv', a=t, k=v, kty=ty))
            out.append(dict(op='divnum', a=t, k=v, kty=ty))
    # factors whose hashes coincide in CPython (hash(-1) == hash(-2)) on terms that are not in normal form: the normal
    # form of one must not be taken for the other's, whichever was normalised first
    for (k1, k2) in (('-1', '-2'), ('-2', '-1'), ('-1d', '-2f'), ('-2f', '-1d')):
        for rest in ([elitem('y', -1), elitem('x', 1)], [elitem('kxy', 1)], [elitem('q', 1), elitem('p', 1), elitem('x', 2)]):
            a, b = [numitem(k1, 1)] + rest, [numitem(k2, 1)] + rest
            out.append(dict(op='norm', t=a))
            out.append(dict(op='norm', t=b))
            out.append(dict(op='eq', a=a, b=b))
            out.append(dict(op='eq', a=rest + [numitem(k1, 1)], b=a))
    for k1 in ('-1', '-1d', '-2', '-2f'):
        for rest in ([elitem('x', 1)], [elitem('y', -1), elitem('x', 1)], [elitem('kx', 2)]):
            for n in (-4, -2, -3, 2):
                out.append(dict(op='pow', a=[numitem(k1, 1)] + rest, n=n))
            out.append(dict(op='make', t=[numitem(k1, -2)] + rest))
            out.append(dict(op='make', t=rest + [numitem(k1, -2)]))
    # an int factor divided / multiplied by an int: the quotient is exact, never a float
    for kk in ('2', '3i', '7i', '-2'):
        for rest in ([elitem('x', 1)], [elitem('y', -2)], [elitem('kx', 1)]):
            for dv in ('3i', '7i', '2', '-2'):
                v, ty = NUMS[dv]
                out.append(dict(op='divnum', a=[numitem(kk, 1)] + rest, k=v, kty=ty))
                out.append(dict(op='mulnum', a=[numitem(kk, 1)] + rest, k=v, kty=ty, left=False))
    # associativity etc. need no own events: every product is judged against the group operation
    # the same operations on operands that were normalized / hashed / compared before
    warm = []
    for c in out:
        if c['op'] in ('mul', 'div', 'pow', 'mulnum', 'rdiv', 'divnum', 'eq', 'norm') and rnd.random() < (0.5 if quick else 0.8):
            w = dict(c)
            w['warm'] = rnd.choice([1, 2])
            warm.append(w)
    out += warm
    for j, c in enumerate(out):
        c['id'] = 'c07:%d' % j
    return out


def eq_cases(ctx):
    """Only the equality / hash cases (used by C19)."""
    return [c for c in cases(ctx) if c['op'] == 'eq']


def _stage(cs):
    import qvimport
    qvimport.install('guard')
    from adapters import terms
    w = terms.TermsWorld().declare()
    return forkpool.forkmap(lambda c: terms.run_case(w, c), cs, batch=2000)


def sig_of(ev, verdict):
    return 'Terms:%s:%s' % (ev['op'], verdict.split(':', 1)[1] if ':' in verdict else verdict)


def judge(ctx, cs, what):
    evs = forkpool.run_stage(_stage, cs)
    byid = {}
    good = []
    for c, e in zip(cs, evs):
        if '_crash' in e or '_harness_exc' in e:
            ctx.fail('%s: %r' % (what, e))
            continue
        byid[e['id']] = e
        if 'exc' in e:
            ctx.deviation('Terms:%s:raises' % e['op'], '%s raised %s' % (_brief(e), e['exc']),
                          dict(kind='terms', case=c))
            continue
        good.append(e)
        ctx.count(e['id'])
    ctx.log('%s: %d events recorded, validating with TermsTrace.tla' % (what, len(good)))
    # one "program" per chunk of events (no state is shared except the order relation)
    chunks = [good[k:k + 4000] for k in range(0, len(good), 4000)]
    v = tracecheck.validate(chunks, 'TermsTrace', tag=ctx.pid + '-terms')
    ctx.add_trace_verdict(v, what)
    ctx.traces += len(chunks)
    for e in good[:3]:
        ctx.sample(_brief(e))
    for eid, verdict, _ in v.deviations:
        e = byid[eid]
        ctx.deviation(sig_of(e, verdict), '%s -> %s: %s' % (_brief(e), _res(e), verdict),
                      dict(kind='terms', case={k: e[k] for k in e if k not in ('res',)}))


def _items(t):
    return '*'.join('%s^%d' % (('%s/%s' % tuple(i['v'])) if i['k'] == 'num' else i['n'], i['e']) for i in t) or '1'


def _brief(e):
    s = e['op']
    for f in ('t', 'a', 'b'):
        if f in e:
            s += ' ' + f + '=' + _items(e[f])
    for f in ('n', 'k'):
        if f in e:
            s += ' %s=%s' % (f, e[f])
    return s


def _res(e):
    if 'res' in e:
        return _items(e['res']) + (' [float]' if any(i['ty'] == 'float' for i in e['res']) else '')
    return 'eq=%s hash_eq=%s' % (e.get('eq'), e.get('heq'))


def run(ctx):
    ctx.rule = ('terms over 8 elements (base x,y; non-convertible p,q of one type; derived kx=10x, hx=kx/2, xy=x/y, '
                'kxy=kx/y) and numeric elements (int, Decimal, Fraction) with exponents -2..2: all terms of length '
                '<=1, all/sampled of length 2, sampled of length 3 -> Term(), normalized() (value, shape, global order, '
                'idempotence, num_elem, split()); random pairs for ==/hash/*// ; constructed equal pairs; ** n, '
                'reciprocal, number*term, number/term, term/number.  Judged on denotations by TermsTrace.tla.')
    ctx.assumptions = ['15-bit rational range of the TLC model (out-of-range events are counted as skipped)']
    model(ctx)
    judge(ctx, cases(ctx), 'terms')


def replay(ctx, rp):
    c = dict(rp['replay']['case'])
    c.setdefault('id', 'replay:0')
    judge(ctx, [c], 'replay')
