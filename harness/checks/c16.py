"""C16 - rejected declarations leave no trace (types and units here; currencies and
money-converter updates are added by the Money / MoneyConv stages)."""
from checks import unitscheck

MENUS = {
    'quick': [
        ('badtypes', ['tA', 'tB', 'tM', 'tA2', 'tA2_dup', 'tA2_dup2', 'tA1', 'tA_dupsym', 'ka', 'm_ka_ka'], 5),
        ('badsym', ['tA', 'tB', 'tA2', 'tAB', 'tA2_symdup', 'tAB_symdup', 'ka', 'm_ka_ka', 'm_ka_b', 'm_b_ka'], 6),
        ('baddef', ['tA', 'ka', 'tBadDef', 'tBd_later', 'tB', 'cb', 'd_ka_ka', 'm_b_bi', 'tBi'], 6),
        ('badunits', ['tA', 'tB', 'tAB', 'ka', 'a_dup', 'ka_dupB', 'empty', 'nonstr', 'xb_wrongtype', 'bad_dim',
                      'arity', 'wrongorder', 'onbase', 'kab', 'bad_cancel'], 5),
        ('badnoref', ['tA', 'tM', 'tMpA', 'tMpA_dup', 'p', 'p_dup', 'ppa', 'ppka', 'q'], 6),
        ('ghost', ['tA', 'tB', 'tAB', 'tA2', 'ka', 'cb', 'ha', 'kacb_dup', 'sq_dup', 'm_ka_cb', 'm_ha_ka'], 7),
    ],
    'thorough': [
        ('badtypes', ['tA', 'tB', 'tM', 'tA2', 'tA2_dup', 'tA2_dup2', 'tA1', 'tA_dupsym', 'ka', 'm_ka_ka', 'ka2', 'tAB'], 6),
        ('badunits', ['tA', 'tB', 'tAB', 'ka', 'a_dup', 'ka_dupB', 'empty', 'nonstr', 'xb_wrongtype', 'bad_dim',
                      'arity', 'wrongorder', 'onbase', 'kab', 'cb', 'kacb'], 6),
        ('badnoref', ['tA', 'tM', 'tMpA', 'p', 'p_dup', 'ppa', 'ppka', 'q', 'ka', 'qpa'], 7),
        ('ghost', ['tA', 'tB', 'tAB', 'tA2', 'ka', 'cb', 'ha', 'kacb_dup', 'sq_dup', 'm_ka_cb', 'm_ha_ka', 'kacb'], 8),
    ]}


def run(ctx):
    ctx.rule = ('every history over menus biased to invalid declarations (duplicate dimension with explicit / '
                'generated reference symbol, duplicate / empty / non-string symbol, definition of another type or '
                'dimension, wrong arity / order / base type in derive_unit_from) at every position; after a rejected '
                'step the projected directories must equal those of the unchanged specification state: symbol unknown '
                'to Unit() and to Quantity("1 sym"), no additional listing, and a later valid declaration of the '
                'symbol succeeds.  distinct_nontrivial = executed transitions.')
    ctx.assumptions = ['types are identified by name in the specification']
    for name, menu, depth in MENUS[ctx.tier]:
        unitscheck.run_menu(ctx, name, menu, depth)
    from checks import mconvcheck
    mconvcheck.rejected_updates(ctx)
    # rejected currency declarations (invalid minor unit / smallest fraction / symbol, unknown or malformed ISO codes)
    from checks import c08, moneycheck
    cur = c08.newcur_cases() + [dict(op='iso', code=c) for c in ('XAU', 'XXX', 'eur', 'EURO', '', 'ABC', 'DEM', ' USD', 'usd')]
    moneycheck.judge(ctx, cur, 'currencies', codes=['EUR'])
    from checks import unitstrace
    unitstrace.run(ctx, 150 if ctx.tier == 'quick' else 3000, 30 if ctx.tier == 'quick' else 40)


def replay(ctx, rp):
    if rp['replay'].get('kind') == 'unitstrace':
        from checks import unitstrace
        return unitstrace.replay(ctx, rp)
    if rp['replay'].get('kind') in ('money', 'money-plain'):
        from checks import c09
        return c09.replay(ctx, rp)
    if rp['replay'].get('kind') == 'RateTable':
        from checks import mconvcheck
        return mconvcheck.replay(ctx, rp)
    unitscheck.replay_path(ctx, rp)
