"""Thin driver around TLC: run a module+config in a scratch directory, parse
the numbers TLC prints, collect PrintT output."""
import atexit
import os
import re
import shutil
import subprocess
import tempfile
import time

VERIF = os.path.dirname(os.path.dirname(os.path.abspath(__file__)))
SPEC_DIR = os.path.join(VERIF, 'spec')
_SCRATCH = [None]


def scratch_root():
    if _SCRATCH[0] is None:
        d = tempfile.mkdtemp(prefix='qv-%d-' % os.getpid(), dir=os.environ.get('VERIF_TMP', '/tmp'))
        _SCRATCH[0] = d
        pid = os.getpid()

        def _clean():
            if os.getpid() == pid:
                shutil.rmtree(d, ignore_errors=True)
        atexit.register(_clean)
    return _SCRATCH[0]


def new_workdir(tag):
    d = tempfile.mkdtemp(prefix=re.sub(r'[^A-Za-z0-9_.-]', '_', tag) + '-', dir=scratch_root())
    for fn in os.listdir(SPEC_DIR):
        if fn.endswith('.tla'):
            shutil.copy(os.path.join(SPEC_DIR, fn), os.path.join(d, fn))
    return d


class TLCResult:
    def __init__(self):
        self.rc = None
        self.out = ''
        self.generated = 0
        self.distinct = 0
        self.depth = 0
        self.wall = 0.0
        self.ok = False
        self.violated = None      # invariant / property name
        self.error = None         # text of TLC error (not a property violation)
        self.cmd = ''
        self.workdir = None

    def prints(self):
        """Values printed by PrintT / Print, one string per value (TLC prints
        them on lines of their own, possibly spanning several lines)."""
        return self.out

    def summary(self):
        return dict(cmd=self.cmd, generated=self.generated, distinct=self.distinct,
                    depth=self.depth, wall_s=round(self.wall, 2), ok=self.ok,
                    violated=self.violated, error=self.error)


_RE_STATES = re.compile(r'(\d+) states generated, (\d+) distinct states found')
_RE_DEPTH = re.compile(r'depth of the complete state graph search is (\d+)')
_RE_INV = re.compile(r'Error: Invariant (\S+) is violated')
_RE_PROP = re.compile(r'Error: Action property (\S+) is violated|Error: Temporal properties were violated')
_RE_SIM = re.compile(r'The number of states generated: (\d+)')


def run(module, cfg_text=None, cfg_file=None, workdir=None, workers=16, timeout=3600,
        extra=(), env=None, heap='8g', tag=None, files=None, deque=False):
    """Run TLC.  `cfg_text` (written to <module>.cfg in workdir) or `cfg_file`
    (name under spec/cfg).  `files`: {name: text} extra files for the workdir."""
    if tag:
        tag = re.sub(r'[^A-Za-z0-9_.-]', '_', tag)
    wd = workdir or new_workdir(tag or module)
    if cfg_text is None:
        with open(os.path.join(SPEC_DIR, 'cfg', cfg_file)) as f:
            cfg_text = f.read()
    cfg_name = (tag or module) + '.cfg'
    with open(os.path.join(wd, cfg_name), 'w') as f:
        f.write(cfg_text)
    for name, text in (files or {}).items():
        with open(os.path.join(wd, name), 'w') as f:
            f.write(text)
    meta = os.path.join(wd, 'meta-%s' % (tag or module))
    cmd = ['tlc', '-workers', str(workers), '-metadir', meta, '-noGenerateSpecTE',
           '-config', cfg_name] + list(extra) + [module + '.tla']
    e = dict(os.environ)
    jto = '-Xmx%s -Xss256m -Djava.io.tmpdir=%s' % (heap, wd)      # TLC's own temporary directories go with the workdir
    if deque:
        jto += ' -Dtlc2.tool.queue.IStateQueue=StateDeque'
    e['JAVA_TOOL_OPTIONS'] = jto
    if env:
        e.update(env)
    res = TLCResult()
    res.cmd = ' '.join(cmd)
    res.workdir = wd
    t0 = time.time()
    try:
        p = subprocess.run(cmd, cwd=wd, env=e, stdout=subprocess.PIPE, stderr=subprocess.STDOUT,
                           timeout=timeout, text=True, errors='replace')
        res.rc = p.returncode
        res.out = p.stdout
    except subprocess.TimeoutExpired as exc:
        res.rc = -9
        res.out = (exc.stdout or b'').decode('utf8', 'replace') if isinstance(exc.stdout, bytes) else (exc.stdout or '')
        res.error = 'timeout after %ss' % timeout
    res.wall = time.time() - t0
    m = None
    for m in _RE_STATES.finditer(res.out):
        pass
    if m:
        res.generated, res.distinct = int(m.group(1)), int(m.group(2))
    else:
        m = _RE_SIM.search(res.out)
        if m:
            res.generated = res.distinct = int(m.group(1))
    m = _RE_DEPTH.search(res.out)
    if m:
        res.depth = int(m.group(1))
    m = _RE_INV.search(res.out)
    if m:
        res.violated = m.group(1)
    elif _RE_PROP.search(res.out):
        mm = _RE_PROP.search(res.out)
        res.violated = mm.group(1) or 'temporal'
    if res.rc == 0 and 'No error has been found' in res.out or \
            (res.rc == 0 and 'Error:' not in res.out):
        res.ok = True
    elif res.violated is None and res.error is None:
        errs = [l for l in res.out.splitlines() if 'Error' in l or 'error' in l]
        res.error = '; '.join(errs[:5]) or ('rc=%s' % res.rc)
    shutil.rmtree(meta, ignore_errors=True)
    return res


def sany(module_path):
    p = subprocess.run(['tla-sany', module_path], stdout=subprocess.PIPE, stderr=subprocess.STDOUT,
                       text=True, cwd=os.path.dirname(module_path))
    ok = p.returncode == 0 and 'Semantic errors' not in p.stdout and 'Parse Error' not in p.stdout \
        and 'Fatal errors' not in p.stdout
    return ok, p.stdout
