#!/bin/sh
# Nothing to build: syntax-check every specification with SANY so that a broken spec is found at setup.
set -e
cd "$(dirname "$0")/spec"
for f in *.tla; do
    out=$(tla-sany "$f" 2>&1) || { echo "$out"; exit 1; }
    if echo "$out" | grep -q -E "Semantic errors|Parse Error|Fatal errors|Could not"; then echo "$out"; exit 1; fi
done
echo "specs ok"
