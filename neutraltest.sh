#!/bin/bash
# usage: neutraltest.sh <dir with patch.diff> <check ids...>
# A NEUTRAL change (behaviour-preserving refactoring / incidental behaviour only): every named check must stay silent.
dir=$1; shift
wt=/tmp/nv-$$
git -C /repo worktree add -q $wt HEAD || exit 2
ev=/tmp/nv-$$-evidence
trap "git -C /repo worktree remove --force $wt >/dev/null 2>&1; git -C /repo worktree prune; rm -rf $ev" EXIT
cp /repo/src/quantity/version.py $wt/src/quantity/version.py 2>/dev/null
cd $wt
git apply $dir/patch.diff 2>/dev/null || git apply -3 $dir/patch.diff >/dev/null 2>&1 || { echo "PATCH-DOES-NOT-APPLY"; exit 2; }
suite=$(PYTHONPATH=$wt/src /venv/bin/python -m pytest -q -p no:cacheprovider -x 2>&1 | tail -1)
echo "suite with change: $suite"
for c in "$@"; do
  out=$(cd /verif && VERIF_REPO=$wt VERIF_EVIDENCE=$ev ./check $c 2>&1)
  rc=$?
  nv=$(echo "$out" | grep -c "^VIOLATION")
  echo "check $c: rc=$rc violations=$nv $(echo "$out" | grep -A1 "^VIOLATION" | sed -n 2p | cut -c1-300) $(echo "$out" | grep -A3 "^MACHINERY" | tr '\n' ' ' | cut -c1-300)"
done
