#!/bin/bash
# usage: seedall.sh [seed dir names...]   (default: all of /verif/seeded)
# For each seeded change: confirm it in a scratch worktree (suite passes, demo fails with / passes without),
# run the quick check of its property against it and record the outcome in meta.json.
cd /verif
seeds="$@"; [ -z "$seeds" ] && seeds=$(ls seeded)
for s in $seeds; do
  p=${s%-*}
  out=$(./seedtest.sh /verif/seeded/$s $p 2>&1)
  echo "== $s"; echo "$out" | cut -c1-260
  echo "$out" > /tmp/seedall-out-$$.txt
  /venv/bin/python - "$s" "$p" /tmp/seedall-out-$$.txt <<'PY'
import json,sys,re,os
s,p=sys.argv[1:3]
out=open(sys.argv[3], errors='replace').read()[:4000]
d='/verif/seeded/%s'%s
notes=open(d+'/notes.md').read() if os.path.exists(d+'/notes.md') else ''
m=re.search(r'demo: pristine rc=(\d+), changed rc=(\d+); suite with change: (.*)',out)
c=re.search(r'check (\w+): rc=(\d+) violations=(\d+)(.*)',out)
meta=dict(seed=s, property=p,
  breaks=notes.strip().split('\n')[0][:300],
  needs_to_manifest='see notes.md (written by the independent sub-agent that produced the change)',
  confirmed=dict(demo_pristine_rc=int(m.group(1)) if m else None, demo_changed_rc=int(m.group(2)) if m else None,
                 suite_with_change=m.group(3).strip() if m else out[:200]),
  ran=['./seedtest.sh /verif/seeded/%s %s  (scratch worktree of /repo HEAD, git apply patch.diff, pytest, demo.py, VERIF_REPO=<worktree> ./check %s)'%(s,p,p)],
  detected_by=({c.group(1): dict(rc=int(c.group(2)), violations=int(c.group(3)), first=c.group(4).strip()[:300])} if c else {}))
json.dump(meta,open(d+'/meta.json','w'),indent=1)
PY
  rm -f /tmp/seedall-out-$$.txt
done
